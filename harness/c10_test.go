package harness

// C10 — patch composition follows the documented per-action semantics.
// Oracle: refCompose (left fold over plain maps/slices) with refPatch6902 for RFC-valid ietf-json-patch operations.

import (
	"encoding/json"
	"fmt"
	"strings"
	"testing"

	"github.com/trustbloc/sidetree-go/pkg/document"
	"github.com/trustbloc/sidetree-go/pkg/patch"
	"github.com/trustbloc/sidetree-go/pkg/versions/1_0/doccomposer"
	"github.com/trustbloc/sidetree-go/pkg/versions/1_0/operationparser/patchvalidator"
	"pgregory.net/rapid"
)

// libDoc converts a JSON value tree into the library's document type (fresh copy, as produced by JSON decoding).
func libDoc(v map[string]interface{}) document.Document {
	var d document.Document
	if err := json.Unmarshal([]byte(refJCS(v)), &d); err != nil {
		panic(err)
	}
	return d
}

// libPatch parses a patch value the way operations deliver it (from JSON bytes).
func libPatch(p map[string]interface{}) (patch.Patch, error) {
	return patch.FromBytes([]byte(refJCS(p)))
}

func libPatches(ps []interface{}) ([]patch.Patch, error) {
	out := make([]patch.Patch, 0, len(ps))
	for _, p := range ps {
		lp, err := libPatch(p.(map[string]interface{}))
		if err != nil {
			return nil, err
		}
		out = append(out, lp)
	}
	return out, nil
}

// jsonRoundTrip turns a library result into a plain JSON value tree (typed-nil slices inside interface{} become null).
func jsonRoundTrip(v interface{}) (interface{}, error) {
	b, err := json.Marshal(v)
	if err != nil {
		return nil, err
	}
	var out interface{}
	if err := json.Unmarshal(b, &out); err != nil {
		return nil, err
	}
	return out, nil
}

func docCanon(v interface{}) string {
	rt, err := jsonRoundTrip(v)
	if err != nil {
		return "ERR:" + err.Error()
	}
	m, ok := rt.(map[string]interface{})
	if !ok {
		if rt == nil {
			return "null"
		}
		return refJCS(rt)
	}
	return refJCS(normalizeDoc(m))
}

func uniqueIDs(list interface{}) bool {
	seen := map[string]bool{}
	for _, id := range idsOf(list) {
		if seen[id] {
			return false
		}
		seen[id] = true
	}
	return true
}

// genValidIetfPatch draws an ietf-json-patch whose operations are valid per RFC 6902 against cur, pass the validator
// and stay outside publicKey/service. Returns nil if no operation survived.
func genValidIetfPatch(t *rapid.T, cur map[string]interface{}, st *propStats) (map[string]interface{}, map[string]bool) {
	flags := map[string]bool{}
	var ops []interface{}
	var work interface{} = cur
	n := rapid.IntRange(1, 4).Draw(t, "nops")
	sawCopy := false
	if rapid.IntRange(0, 5).Draw(t, "numberTest") == 0 {
		// a number is stored and then tested: RFC 6902 compares numbers by value, whatever their spelling
		f := rapid.SampledFrom([]float64{0, 1, 100, 0.5, 1e21, 1e-7, -2}).Draw(t, "testedNumber")
		for _, op := range []map[string]interface{}{{"op": "add", "path": "/num", "value": f}, {"op": "test", "path": "/num", "value": f}} {
			next, err := refPatch6902(work, op)
			if err != nil {
				break
			}
			ops = append(ops, op)
			work = next
			flags["ietf-number-test"] = true
		}
	}
	if rapid.IntRange(0, 7).Draw(t, "markupValue") == 0 {
		// values with characters that some JSON encoders escape (& < > U+2028 U+2029): equal values are equal however
		// either side happens to be spelled internally
		val := rapid.SampledFrom([]interface{}{"https://example.com/x?a=1&b=2", "Alice <alice@example.com>", "a\u2028b\u2029c", "<>&",
			map[string]interface{}{"q": "a&b", "<k>": []interface{}{"x>y"}}}).Draw(t, "markup")
		name := rapid.SampledFrom([]string{"contact", "o", "name"}).Draw(t, "markupName")
		for _, op := range []map[string]interface{}{{"op": "add", "path": "/" + name, "value": val}, {"op": "test", "path": "/" + name, "value": deepCopyValue(val)},
			{"op": "copy", "from": "/" + name, "path": "/copyOfMarkup"}, {"op": "test", "path": "/copyOfMarkup", "value": deepCopyValue(val)}} {
			next, err := refPatch6902(work, op)
			if err != nil {
				break
			}
			ops = append(ops, op)
			work = next
			flags["ietf-markup-value"] = true
		}
	}
	if rapid.IntRange(0, 7).Draw(t, "nullMember") == 0 {
		// a member that exists and holds null is a value like any other: it can be tested, copied and moved
		name := rapid.SampledFrom([]string{"nothing", "o", "name"}).Draw(t, "nullName")
		var seq []map[string]interface{}
		if rapid.Bool().Draw(t, "nullNested") {
			seq = append(seq, map[string]interface{}{"op": "add", "path": "/" + name, "value": map[string]interface{}{"inner": nil, "list": []interface{}{nil, "x"}}})
			name += "/inner"
		} else {
			seq = append(seq, map[string]interface{}{"op": "add", "path": "/" + name, "value": nil})
		}
		switch rapid.IntRange(0, 2).Draw(t, "nullUse") {
		case 0:
			seq = append(seq, map[string]interface{}{"op": "test", "path": "/" + name, "value": nil})
		case 1:
			seq = append(seq, map[string]interface{}{"op": "copy", "from": "/" + name, "path": "/copiedNull"})
		default:
			seq = append(seq, map[string]interface{}{"op": "move", "from": "/" + name, "path": "/movedNull"})
		}
		for _, op := range seq {
			next, err := refPatch6902(work, op)
			if err != nil {
				break
			}
			ops = append(ops, op)
			work = next
			flags["ietf-null-member"] = true
		}
	}
	if rapid.IntRange(0, 7).Draw(t, "prefixSibling") == 0 {
		// a move / copy to a sibling whose pointer text merely begins with the text of 'from' (not a child of it)
		name := rapid.SampledFrom([]string{"contact", "o", "tags"}).Draw(t, "siblingName")
		list := []interface{}{}
		for i := 0; i < 12; i++ {
			list = append(list, fmt.Sprintf("t%d", i))
		}
		var seq []map[string]interface{}
		if rapid.Bool().Draw(t, "siblingInArray") {
			seq = []map[string]interface{}{{"op": "add", "path": "/" + name, "value": list},
				{"op": rapid.SampledFrom([]string{"move", "copy"}).Draw(t, "siblingOp"), "from": "/" + name + "/1", "path": "/" + name + "/1" + rapid.SampledFrom([]string{"0", "1"}).Draw(t, "siblingIdx")}}
		} else {
			seq = []map[string]interface{}{{"op": "add", "path": "/" + name, "value": map[string]interface{}{"a": "b"}},
				{"op": rapid.SampledFrom([]string{"move", "copy"}).Draw(t, "siblingOp"), "from": "/" + name, "path": "/" + name + rapid.SampledFrom([]string{"Previous", "2", "~0", "-"}).Draw(t, "siblingSuffix")}}
		}
		for _, op := range seq {
			next, err := refPatch6902(work, op)
			if err != nil {
				break
			}
			ops = append(ops, op)
			work = next
			flags["ietf-prefix-sibling"] = true
		}
	}
	if rapid.IntRange(0, 7).Draw(t, "shiftingMove") == 0 {
		// a move out of an array into a location behind it in the same array: the location is meant in the array as it is
		// after the removal (an element that was an array may have become an object and the other way round)
		name := rapid.SampledFrom([]string{"sh", "name", "o"}).Draw(t, "shiftName")
		elems := []interface{}{"x", []interface{}{"a"}, map[string]interface{}{"k": "v"}, []interface{}{}, "y"}
		perm := rapid.Permutation(elems).Draw(t, "shiftElems")
		setup := map[string]interface{}{"op": "add", "path": "/" + name, "value": append([]interface{}{"first"}, perm...)}
		var target string
		switch idx := rapid.IntRange(1, len(perm)-1).Draw(t, "shiftTo"); perm[idx].(type) {
		case []interface{}:
			target = fmt.Sprintf("/%s/%d/0", name, idx) // perm[idx] sits at idx once "first" is gone
		case map[string]interface{}:
			target = fmt.Sprintf("/%s/%d/moved", name, idx)
		default:
			target = fmt.Sprintf("/%s/%d", name, idx)
		}
		for _, op := range []map[string]interface{}{setup, {"op": "move", "from": "/" + name + "/0", "path": target}} {
			next, err := refPatch6902(work, op)
			if err != nil {
				break
			}
			ops = append(ops, op)
			work = next
			flags["ietf-shifting-move"] = true
		}
	}
	for i := 0; i < n; i++ {
		op := genOp6902(t, work, true)
		path, _ := op["path"].(string)
		from, _ := op["from"].(string)
		if touchesProtected(path) || (op["from"] != nil && touchesProtected(from)) {
			st.Exclude("ietf op addressing publicKey/service/root (validator's business, see C11)")
			continue
		}
		if wm, ok := work.(map[string]interface{}); ok && isEmptyList(wm["alsoKnownAs"]) &&
			(strings.HasPrefix(path, "/alsoKnownAs") || strings.HasPrefix(from, "/alsoKnownAs")) {
			if _, present := wm["alsoKnownAs"]; present {
				st.Exclude("ietf op reading an empty alsoKnownAs list (null vs [] spelling of an empty list is unspecified)")
				continue
			}
		}
		next, err := refPatch6902(work, op)
		if err != nil {
			st.Exclude("drawn ietf op not applicable per RFC 6902: redrawn (inapplicable operations are the subject of TestC10_Inapplicable / C12)")
			continue
		}
		if _, ok := next.(map[string]interface{}); !ok {
			continue
		}
		if sawCopy {
			flags["ietf-after-copy"] = true
		}
		if op["op"] == "copy" || op["op"] == "move" {
			sawCopy = true
			if strings.HasPrefix(path, from+"/") {
				flags["ietf-copy-into-own-child"] = true
			}
		}
		flags["ietf-"+op["op"].(string)] = true
		ops = append(ops, op)
		work = next
	}
	if len(ops) == 0 {
		return nil, flags
	}
	return map[string]interface{}{"action": "ietf-json-patch", "patches": ops}, flags
}

func TestC10_Compose(t *testing.T) {
	st := statsFor("C10")
	composer := doccomposer.New()
	check(t, "C10", 4000, func(t *rapid.T) {
		start := genDocument(t, false)
		if rapid.IntRange(0, 5).Draw(t, "emptyStart") == 0 {
			start = map[string]interface{}{}
		}
		ref := deepCopyValue(start).(map[string]interface{})
		n := rapid.IntRange(1, 7).Draw(t, "npatches")
		var patches []interface{}
		labels := []string{}
		flags := map[string]bool{}
		removedKeys, removedSvcs := map[string]bool{}, map[string]bool{}
		replaced := false
		for i := 0; i < n; i++ {
			action := rapid.SampledFrom(allActions).Draw(t, "action")
			var p map[string]interface{}
			if action == "ietf-json-patch" {
				var f map[string]bool
				p, f = genValidIetfPatch(t, ref, st)
				for k := range f {
					flags[k] = true
				}
				if p == nil {
					continue
				}
			} else {
				p = genDedicatedPatch(t, action, ref, false)
			}
			// bookkeeping for the non-triviality rule
			switch action {
			case "remove-public-keys":
				for _, id := range stringEntries(p["ids"]) {
					removedKeys[id] = true
				}
			case "remove-services":
				for _, id := range stringEntries(p["ids"]) {
					removedSvcs[id] = true
				}
			case "add-public-keys", "add-services":
				member, rm := "publicKey", removedKeys
				listKey := "publicKeys"
				if action == "add-services" {
					member, rm, listKey = "service", removedSvcs, "services"
				}
				hit, miss := 0, 0
				existing := map[string]bool{}
				for _, id := range idsOf(ref[member]) {
					existing[id] = true
				}
				for _, id := range idsOf(p[listKey]) {
					if existing[id] {
						hit++
					} else {
						miss++
					}
					if rm[id] {
						flags["remove-then-readd"] = true
					}
				}
				if hit > 0 && miss > 0 {
					flags["partial-overlap"] = true
				}
				if hit > 0 {
					flags["replace-by-id"] = true
				}
				if replaced {
					flags["replace-then-add"] = true
				}
			case "replace":
				replaced = true
			case "add-also-known-as":
				have := map[string]bool{}
				for _, u := range stringEntries(ref["alsoKnownAs"]) {
					have[u] = true
				}
				for _, u := range stringEntries(p["uris"]) {
					if have[u] {
						flags["aka-duplicate"] = true
					}
				}
			}
			lp, err := libPatch(p)
			if err != nil {
				t.Fatalf("C10 harness generated a patch the library cannot parse: %v: %s", err, refJCS(p))
			}
			if err := patchvalidator.Validate(lp); err != nil {
				t.Fatalf("C10 harness generated a patch that does not validate: %v: %s", err, refJCS(p))
			}
			next, err := refComposeOne(ref, p)
			if err != nil {
				t.Fatalf("harness: reference composer failed on a patch generated as valid: %v", err)
			}
			ref = next
			patches = append(patches, p)
			labels = append(labels, "action-"+action)
		}
		if len(patches) == 0 {
			st.Exclude("no patch survived generation")
			return
		}
		if rapid.IntRange(0, 3).Draw(t, "patchRepeated") == 0 {
			// the same patch twice in a row is two patches: the fold applies both (appending twice appends two entries; where
			// the second application is an error per the action's semantics the list stays as it was)
			i := rapid.IntRange(0, len(patches)-1).Draw(t, "repeatedAt")
			twice := append(append(append([]interface{}{}, patches[:i+1]...), deepCopyValue(patches[i])), patches[i+1:]...)
			// (not where JSON patch operations address the also-known-as list: they were drawn for the list as it stood, and
			// whether a list emptied by the repetition reads as [] or as absent is unspecified - false alarm (10) of section 6)
			if again, err := refCompose(start, twice); err == nil && !strings.Contains(refJCS(patches), "/alsoKnownAs") {
				patches, ref = twice, again
				labels = append(labels, "patch-twice-in-a-row")
			}
		}
		lps, err := libPatches(patches)
		if err != nil {
			t.Fatalf("C10: %v", err)
		}
		// patches arrive as JSON text in any spelling (member order, escapes, number spellings such as 1.0, 1e0, -0)
		if rapid.IntRange(0, 2).Draw(t, "spelledPatches") == 0 {
			lps = lps[:0]
			for _, p := range patches {
				lp, err := patch.FromBytes([]byte(spell(t, p, 1)))
				if err != nil {
					t.Fatalf("C10 re-spelled patch not parseable: %v", err)
				}
				lps = append(lps, lp)
			}
			labels = append(labels, "patches-respelled")
		}
		journal("ApplyPatches", []byte(refJCS(map[string]interface{}{"doc": start, "patches": patches})))
		got, err := composer.ApplyPatches(libDoc(start), lps)
		if err != nil {
			t.Fatalf("C10 ApplyPatches failed on validated, applicable patches: %v\n doc=%s\n patches=%s", err, refJCS(start), refJCS(patches))
		}
		if g, w := docCanon(got), refJCS(normalizeDoc(ref)); g != w {
			t.Fatalf("C10 composition differs from the per-action semantics\n doc=%s\n patches=%s\n got= %s\n want=%s", refJCS(start), refJCS(patches), g, w)
		}
		// the fold is a function of document and patches: the same patch values applied again (to the same start document,
		// and as a list in which every patch of the list occurs twice where that is idempotent) give the same result
		if again, err := composer.ApplyPatches(libDoc(start), lps); err != nil || docCanon(again) != docCanon(got) {
			t.Fatalf("C10 applying the same patch values a second time gives another result (%v)\n doc=%s\n patches=%s\n first= %s\n second=%s",
				err, refJCS(start), refJCS(patches), docCanon(got), docCanon(again))
		}
		if uniqueIDs(start["publicKey"]) && uniqueIDs(start["service"]) {
			rt, _ := jsonRoundTrip(got)
			gm, _ := rt.(map[string]interface{})
			if !uniqueIDs(gm["publicKey"]) || !uniqueIDs(gm["service"]) {
				t.Fatalf("C10 result has duplicate ids: %s", docCanon(got))
			}
		}
		nontrivial := false
		for f := range flags {
			labels = append(labels, f)
			switch f {
			case "remove-then-readd", "replace-then-add", "partial-overlap", "aka-duplicate", "ietf-after-copy":
				nontrivial = true
			}
		}
		st.Case(nontrivial, refJCS(start)+refJCS(patches), labels...)
		st.Sample("history", 2, func() interface{} {
			return map[string]interface{}{"doc": start, "patches": patches, "result": normalizeDoc(ref)}
		})
		if nontrivial {
			st.Sample("nontrivial", 2, func() interface{} {
				return map[string]interface{}{"doc": start, "patches": patches, "result": normalizeDoc(ref), "flags": flags}
			})
		}
	})
}

func lpList(p patch.Patch) []patch.Patch { return []patch.Patch{p} }

// TestC10_Inapplicable: RFC 6902 also says when an operation is an error (missing target, failed test, location that is not
// a member / not an index of the array it addresses); the whole patch then fails. One such operation, after any number
// of applicable ones, must make ApplyPatches fail.
func TestC10_Inapplicable(t *testing.T) {
	st := statsFor("C10")
	composer := doccomposer.New()
	check(t, "C10", 1500, func(t *rapid.T) {
		doc := genDocument(t, false)
		if rapid.IntRange(0, 2).Draw(t, "withArrays") == 0 {
			doc["arr"] = []interface{}{"a", "b", "c"}
			doc["o"] = map[string]interface{}{"list": []interface{}{float64(1), map[string]interface{}{"k": "v"}}}
		}
		var ops []interface{}
		var work interface{} = doc
		if p, _ := genValidIetfPatch(t, doc, st); p != nil && rapid.Bool().Draw(t, "validPrefix") {
			for _, o := range p["patches"].([]interface{}) {
				next, err := refPatch6902(work, o.(map[string]interface{}))
				if err != nil {
					t.Fatalf("harness: valid prefix does not apply: %v", err)
				}
				work = next
				ops = append(ops, o)
			}
		}
		var bad map[string]interface{}
		why := ""
		for try := 0; try < 12 && bad == nil; try++ {
			op := genOp6902(t, work, true)
			if try == 0 && rapid.IntRange(0, 7).Draw(t, "ontoItself") == 0 {
				// moving / copying a location that does not exist onto itself is not a no-op: the source must exist
				loc := rapid.SampledFrom([]string{"/missing", "/arr/9", "/o/nothing", "/arr/01", "/name/x"}).Draw(t, "selfLocation")
				op = map[string]interface{}{"op": rapid.SampledFrom([]string{"move", "copy"}).Draw(t, "selfOp"), "from": loc, "path": loc}
			}
			if try == 0 && rapid.IntRange(0, 5).Draw(t, "testMissingForNull") == 0 {
				// a location that does not exist is not a location holding null
				op = map[string]interface{}{"op": "test", "path": rapid.SampledFrom([]string{"/missing", "/arr/9", "/o/nothing", "/name/x/y"}).Draw(t, "missingPath"), "value": nil}
			}
			if try < 3 && rapid.IntRange(0, 5).Draw(t, "memberOnlyInOtherCase") == 0 {
				// member names of an operation are case-sensitive: an applicable operation whose op / path / from member is
				// present only under a name in another letter case lacks that member
				if _, err := refPatch6902(work, op); err == nil {
					names := []string{"path", "op"}
					if op["from"] != nil {
						names = []string{"from", "from", "path", "op"}
					}
					name := rapid.SampledFrom(names).Draw(t, "respelledMember")
					other := rapid.SampledFrom([]string{strings.ToUpper(name[:1]) + name[1:], strings.ToUpper(name)}).Draw(t, "otherCase")
					cp := deepCopyValue(op).(map[string]interface{})
					cp[other] = cp[name]
					delete(cp, name)
					pth, _ := op["path"].(string)
					frm, _ := op["from"].(string)
					if !touchesProtected(pth) && !(op["from"] != nil && touchesProtected(frm)) && !strings.HasPrefix(pth, "/alsoKnownAs") && !strings.HasPrefix(frm, "/alsoKnownAs") {
						bad, why = cp, fmt.Sprintf("member %q only present as %q", name, other)
						break
					}
				}
			}
			path, _ := op["path"].(string)
			from, _ := op["from"].(string)
			if touchesProtected(path) || (op["from"] != nil && touchesProtected(from)) {
				continue
			}
			if strings.HasPrefix(path, "/alsoKnownAs") || strings.HasPrefix(from, "/alsoKnownAs") {
				continue // null vs [] spelling of an empty list is unspecified
			}
			if _, err := refPatch6902(work, op); err != nil {
				bad, why = op, err.Error()
			}
		}
		if bad == nil {
			st.Exclude("no inapplicable operation drawn")
			return
		}
		ops = append(ops, bad)
		p := map[string]interface{}{"action": "ietf-json-patch", "patches": ops}
		lp, err := libPatch(p)
		if err != nil {
			t.Fatalf("C10 harness: %v", err)
		}
		if verr := patchvalidator.Validate(lp); verr != nil {
			st.Exclude("inapplicable operation refused by the validator already")
			return
		}
		// the failing patch anywhere in a list of otherwise valid patches (also in front of a 'replace', which discards the
		// document but not the failure): the fold fails as a whole
		list := []interface{}{p}
		for i, n := 0, rapid.IntRange(0, 2).Draw(t, "patchesBefore"); i < n; i++ {
			list = append([]interface{}{genDedicatedPatch(t, rapid.SampledFrom([]string{"add-also-known-as", "remove-also-known-as", "remove-services", "remove-public-keys"}).Draw(t, "before"), doc, false)}, list...)
		}
		for i, n := 0, rapid.IntRange(0, 2).Draw(t, "patchesAfter"); i < n; i++ {
			list = append(list, genDedicatedPatch(t, rapid.SampledFrom([]string{"replace", "replace", "add-public-keys", "add-services", "add-also-known-as", "remove-services"}).Draw(t, "after"), doc, false))
		}
		// the operation was found inapplicable on the document as it stood; patches in front of it may have changed what it
		// refers to (a longer alsoKnownAs list copied into an array makes a larger index legal): the reference decides on the
		// list as a whole
		if _, rerr := refCompose(doc, list); rerr == nil {
			st.Exclude("the patches in front made the operation applicable")
			return
		}
		lps, err := libPatches(list)
		if err != nil {
			t.Fatalf("C10 harness: %v", err)
		}
		journal("ApplyPatches", []byte(refJCS(map[string]interface{}{"doc": doc, "patches": list})))
		got, aerr := composer.ApplyPatches(libDoc(doc), lps)
		if aerr == nil && replaceOfMissingMember(work, bad) && knownOpen("F20") {
			st.Known("F20", "replace of a missing object member is applied as add")
			return
		}
		if aerr == nil {
			t.Fatalf("C10 ietf-json-patch with an operation that RFC 6902 makes an error (%s) was applied\n doc=%s\n ops=%s\n patch list=%s\n result=%s", why, refJCS(doc), refJCS(ops), refJCS(list), docCanon(got))
		}
		kind, _ := bad["op"].(string)
		st.Case(len(ops) > 1 || len(list) > 1, "inapplicable|"+refJCS(doc)+refJCS(list), "inapplicable", "inapplicable-"+kind, fmt.Sprintf("inapplicable-in-list-of-%d", len(list)))
		st.Sample("inapplicable", 2, func() interface{} { return map[string]interface{}{"ops": ops, "why": why} })
	})
}

// replaceOfMissingMember is the signature of finding F20: a 'replace' whose target is a member that does not exist in an
// existing object.
func replaceOfMissingMember(doc interface{}, op map[string]interface{}) bool {
	if op["op"] != "replace" {
		return false
	}
	path, _ := op["path"].(string)
	toks, err := parsePointer(path)
	if err != nil || len(toks) == 0 {
		return false
	}
	parent, err := ptrGet(doc, toks[:len(toks)-1])
	if err != nil {
		return false
	}
	obj, ok := parent.(map[string]interface{})
	if !ok {
		return false
	}
	_, present := obj[toks[len(toks)-1]]
	return !present
}
