package harness

// C01 — the resolved state is the Sidetree state-machine fold of the operation history.
// Oracle: refApply (ref_apply_test.go) after every step; all fields of the resolution model are compared.

import (
	"encoding/json"
	"fmt"
	"github.com/trustbloc/sidetree-go/pkg/versions/1_0/operationparser"
	"testing"

	"github.com/trustbloc/sidetree-go/pkg/api/operation"
	"github.com/trustbloc/sidetree-go/pkg/api/protocol"
	"pgregory.net/rapid"
)

// genHistoryProtocol draws the protocol configuration of one history.
func genHistoryProtocol(t *rapid.T) protocol.Protocol {
	p := wideProtocol()
	p.MultihashAlgorithms = rapid.SampledFrom([][]uint{{18}, {19}, {18, 19}, {19, 18}}).Draw(t, "hashAlgs")
	p.MaxOperationTimeDelta = rapid.SampledFrom([]uint64{0, 1, 2, 5, 600}).Draw(t, "timeDelta")
	p.MaxDeltaSize = rapid.SampledFrom([]uint{1200, 3000, 20000}).Draw(t, "maxDelta")
	p.MaxOperationSize = p.MaxDeltaSize*2 + 3000
	p.NonceSize = rapid.SampledFrom([]uint64{16, 8, 32}).Draw(t, "nonceSize")
	return p
}

type historyOpts struct {
	prop      string
	snapshots bool // C12: verify that inputs and earlier results are never mutated
	maxSteps  int
}

type histStep struct {
	Type, Class, Outcome string
}

// runHistory generates and checks one operation history. Returns the labels and whether it was non-trivial.
func runHistory(t *rapid.T, o historyOpts, st *propStats) {
	p := genHistoryProtocol(t)
	stack := newStack(p)
	if rapid.Bool().Draw(t, "rejectingSubmissionValidators") {
		// anchored operations are past submission: what the parser's submission-time validators (anchoring time, anchor
		// origin) would say about them now must not matter to the applier
		stack = newStack(p, operationparser.WithAnchorTimeValidator(&recordingTimeValidator{err: operationparser.ErrOperationExpired}),
			operationparser.WithAnchorOriginValidator(rejectingOriginValidator{}))
	}
	// initial state: empty, carrying operation lists that must be handed through unchanged
	var pub, unpub []*operation.AnchoredOperation
	for i, n := 0, rapid.IntRange(0, 2).Draw(t, "npub"); i < n; i++ {
		pub = append(pub, &operation.AnchoredOperation{Type: "create", UniqueSuffix: fmt.Sprint("p", i), TransactionTime: uint64(i)})
	}
	for i, n := 0, rapid.IntRange(0, 2).Draw(t, "nunpub"); i < n; i++ {
		unpub = append(unpub, &operation.AnchoredOperation{Type: "update", UniqueSuffix: fmt.Sprint("u", i), TransactionTime: uint64(i)})
	}
	lib := &protocol.ResolutionModel{PublishedOperations: pub, UnpublishedOperations: unpub}
	ref := &refModel{}
	keys := chainKeys{}
	suffix := "EiAsuffixNotYetKnown"
	steps := rapid.IntRange(1, o.maxSteps).Draw(t, "steps")
	var hist []histStep
	var snaps []snapshot
	accepted, degraded, refused := 0, 0, 0
	afterDegraded := false
	interesting := false
	keyTypes := map[string]bool{}
	for s := 0; s < steps; s++ {
		var typ string
		if !ref.Exists {
			typ = rapid.SampledFrom([]string{"create", "create", "create", "create", "update", "recover", "deactivate"}).Draw(t, "opType")
		} else {
			typ = rapid.SampledFrom([]string{"update", "update", "update", "update", "recover", "recover", "create", "deactivate"}).Draw(t, "opType")
		}
		m := genMeta(t)
		ctx := &opGenCtx{P: p, Doc: ref.Doc, Suffix: suffix, Keys: keys, Time: m.Time, St: st}
		c := genOpCase(t, typ, ctx)
		want, wantOut := refApply(ref, c, m, p)
		if c.Type == "create" {
			suffix = c.Build.suffixFor(p.MultihashAlgorithms[0])
		}
		// the request may arrive in any JSON spelling (member order, whitespace, escapes): the state must not depend on it
		opBytes := c.Bytes
		if rapid.IntRange(0, 2).Draw(t, "respell") == 0 {
			if v, derr := decodeIJSON(c.Bytes); derr == nil {
				opBytes = []byte(spell(t, v, 1))
			}
		}
		if c.Class == "valid" && rapid.IntRange(0, 5).Draw(t, "withoutTypeMember") == 0 {
			// an anchored operation carries its type beside the request; the request's own "type" member is optional there
			// (the long-form initial state, for one, does not have it)
			if v, derr := decodeIJSON(opBytes); derr == nil {
				if mm, ok := v.(map[string]interface{}); ok {
					delete(mm, "type")
					opBytes = []byte(refJCS(mm))
				}
			}
		}
		op := anchoredBytes(typ, opBytes, suffix, m)
		if rapid.IntRange(0, 4).Draw(t, "opAmongUnpublished") == 0 {
			// the operation being applied may itself be listed among the state's unpublished operations (this is how a create
			// result is computed before anchoring): the list is handed through as it is all the same
			twin := *op
			unpub = append([]*operation.AnchoredOperation{op, &twin}, unpub...)
			unpub = append(unpub, &operation.AnchoredOperation{Type: "update", UniqueSuffix: fmt.Sprint("tail", s), TransactionTime: uint64(s)})
			withList := *lib
			withList.UnpublishedOperations = unpub
			lib = &withList
		}
		var before, opSnap snapshot
		if o.snapshots {
			before = snap(fmt.Sprintf("resolution model before step %d", s), lib)
			opSnap = snap(fmt.Sprintf("anchored operation of step %d", s), op)
		}
		journal("Apply", []byte(refJCS(map[string]interface{}{"type": typ, "request": string(c.Bytes)})))
		got, err := stack.Applier.Apply(op, lib)
		desc := fmt.Sprintf("step %d: %s/%s (expected %s) from=%d until=%d t=%d delta=%d\n request=%s", s, typ, c.Class, wantOut, c.From, c.Until, m.Time, p.MaxOperationTimeDelta, clip(string(c.Bytes), 3000))
		if string(opBytes) != string(c.Bytes) {
			desc += "\n as anchored (re-spelled)=" + clip(string(opBytes), 4000)
		}
		if o.snapshots {
			if verr := before.verify(); verr != nil {
				t.Fatalf("%s Apply mutated the previous state: %v\n%s", o.prop, verr, desc)
			}
			if verr := opSnap.verify(); verr != nil {
				t.Fatalf("%s Apply mutated the anchored operation: %v\n%s", o.prop, verr, desc)
			}
			snaps = append(snaps, before, opSnap)
		}
		if wantOut == outRefused {
			if err == nil || got != nil {
				if o.prop == "C12" && err != nil {
					t.Fatalf("C12 refused operation returned a state together with the error\n%s", desc)
				}
				if o.prop == "C01" {
					t.Fatalf("C01 operation that the Sidetree rules refuse was applied (err=%v)\n%s", err, desc)
				}
			}
			if got != nil && err != nil {
				t.Fatalf("%s error and state returned together\n%s", o.prop, desc)
			}
			if err != nil {
				refused++
				hist = append(hist, histStep{typ, c.Class, "refused"})
				continue // previous state stays in force
			}
		}
		if err != nil {
			if o.prop == "C01" {
				t.Fatalf("C01 operation refused but the Sidetree rules accept it (%s): %v\n%s", wantOut, err, desc)
			}
			refused++
			continue
		}
		if got == nil {
			t.Fatalf("%s Apply returned neither state nor error\n%s", o.prop, desc)
		}
		if o.prop == "C01" {
			if cerr := compareModel(got, want, pub, unpub); cerr != nil {
				diag := ""
				if lps, perr := libPatches(c.Patches); perr == nil && lib.Doc != nil {
					_, aerr := stack.Composer.ApplyPatches(lib.Doc, lps)
					diag = fmt.Sprintf("\n (diagnostic: composer on the previous document with this operation's patches: err=%v; previous document=%s)", aerr, docCanon(lib.Doc))
					if typ == "update" {
						if parsed, perr := stack.Parser.ParseUpdateOperation(opBytes, true); perr == nil && parsed.Delta != nil {
							_, aerr2 := stack.Composer.ApplyPatches(lib.Doc, parsed.Delta.Patches)
							pj, _ := json.Marshal(parsed.Delta.Patches)
							diag += fmt.Sprintf("\n (diagnostic: with the patches as the parser delivers them: err=%v, validate=%v)\n parser patches: %s\n model patches:  %s", aerr2, stack.Parser.ValidateDelta(parsed.Delta), pj, refJCS(c.Patches))
						}
					}
				}
				t.Fatalf("C01 resolved state differs from the Sidetree fold: %v\n%s\n history so far: %+v%s", cerr, desc, hist, diag)
			}
		}
		lib, ref = got, want
		hist = append(hist, histStep{typ, c.Class, wantOut.String()})
		if c.Build.SignKey != nil {
			keyTypes[c.Build.SignKey.Type.String()] = true
		}
		if wantOut == outFull {
			accepted++
		} else {
			degraded++
			afterDegraded = true
		}
		if afterDegraded && wantOut == outFull && (typ == "recover" || typ == "deactivate") {
			interesting = true
		}
		switch typ {
		case "create":
			keys = chainKeys{Update: c.Build.NextUpdate, Recovery: c.Build.NextRecov}
			if wantOut == outNoDelta {
				keys.Update = nil
			}
		case "update":
			keys.Update = c.Build.NextUpdate
		case "recover":
			keys = chainKeys{Update: c.Build.NextUpdate, Recovery: c.Build.NextRecov}
			if wantOut == outNoDelta {
				keys.Update = nil
			}
		}
		if ref.Deactivated {
			break
		}
	}
	if o.snapshots {
		snaps = append(snaps, snap("final resolution model", lib))
		for _, sn := range snaps {
			if verr := sn.verify(); verr != nil {
				t.Fatalf("%s a later Apply corrupted an earlier value: %v\n history %+v", o.prop, verr, hist)
			}
		}
	}
	nontrivial := len(hist) >= 3 && accepted > 0 && degraded > 0 && refused > 0 || interesting
	if o.prop == "C12" {
		nontrivial = ref.Exists && len(ref.Doc) > 0 && (refused > 0 || degraded > 0) && accepted > 0
	}
	labels := []string{"history"}
	for _, h := range hist {
		labels = append(labels, "step-"+h.Type+"/"+h.Class, "outcome-"+h.Type+"-"+h.Outcome)
	}
	for k := range keyTypes {
		labels = append(labels, "signer-"+k)
	}
	st.Case(nontrivial, fmt.Sprintf("%+v|%v", hist, p.MultihashAlgorithms), labels...)
	st.Sample("history", 3, func() interface{} {
		return map[string]interface{}{"steps": hist, "multihash": p.MultihashAlgorithms, "timeDelta": p.MaxOperationTimeDelta}
	})
}

func TestC01_Histories(t *testing.T) {
	st := statsFor("C01")
	check(t, "C01", 400, func(t *rapid.T) {
		runHistory(t, historyOpts{prop: "C01", maxSteps: 12}, st)
	})
}

func TestC12_Operations(t *testing.T) {
	st := statsFor("C12")
	check(t, "C12", 250, func(t *rapid.T) {
		runHistory(t, historyOpts{prop: "C12", snapshots: true, maxSteps: 8}, st)
	})
}
