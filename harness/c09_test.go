package harness

// C09 — anchoring window: effective iff from <= t <= until, default from + maxOperationTimeDelta.
// Oracle: the window rule written out (windowEffective) + refApply for the consequences; a recording TimeValidator for the
// pair the parser hands over; metamorphic: no other protocol limit influences the verdict.

import (
	"fmt"
	"github.com/trustbloc/sidetree-go/pkg/api/operation"
	"strings"
	"testing"

	"github.com/trustbloc/sidetree-go/pkg/api/protocol"
	"github.com/trustbloc/sidetree-go/pkg/versions/1_0/operationparser"
	"pgregory.net/rapid"
)

type recordingTimeValidator struct {
	calls [][2]int64
	err   error
}

func (r *recordingTimeValidator) Validate(from, until int64) error {
	r.calls = append(r.calls, [2]int64{from, until})
	return r.err
}

func genC09Protocol(t *rapid.T, label string, delta uint64) protocol.Protocol {
	p := wideProtocol()
	p.MaxOperationTimeDelta = delta
	// every other numeric limit drawn independently, all different from any time delta in use
	p.MaxDeltaSize = rapid.SampledFrom([]uint{7000, 7201, 100000, 9999}).Draw(t, label+"-maxDelta")
	p.MaxOperationSize = rapid.SampledFrom([]uint{30000, 50001, 400000}).Draw(t, label+"-maxOp")
	p.MaxOperationHashLength = rapid.SampledFrom([]uint{88, 100, 150}).Draw(t, label+"-maxHash")
	p.NonceSize = rapid.SampledFrom([]uint64{16, 3, 32}).Draw(t, label+"-nonce")
	p.MaxOperationCount = uint(rapid.SampledFrom([]int{1, 4, 10000}).Draw(t, label+"-count"))
	p.GenesisTime = uint64(rapid.SampledFrom([]int{0, 3, 1000}).Draw(t, label+"-genesis"))
	p.MaxCasURILength = uint(rapid.SampledFrom([]int{3, 500}).Draw(t, label+"-cas"))
	p.MaxMemoryDecompressionFactor = uint(rapid.SampledFrom([]int{3, 4}).Draw(t, label+"-mem"))
	return p
}

func TestC09_Window(t *testing.T) {
	st := statsFor("C09")
	check(t, "C09", 1500, func(t *rapid.T) {
		delta := rapid.SampledFrom([]uint64{0, 1, 2, 5, 600, 7200, 10000000000, 1 << 40}).Draw(t, "timeDelta")
		p := genC09Protocol(t, "cfg", delta)
		stack := newStack(p)
		if rapid.Bool().Draw(t, "rejectingSubmissionValidator") {
			// the window of an anchored operation is judged against its anchoring time; what a submission-time validator of
			// the parser would say about it today must not matter
			stack = newStack(p, operationparser.WithAnchorTimeValidator(&recordingTimeValidator{err: operationparser.ErrOperationExpired}))
		}
		typ := rapid.SampledFrom([]string{"update", "recover", "deactivate"}).Draw(t, "opType")

		// (from, until, t): small grid (all orderings and equalities) or large values around a base
		var from, until int64
		var tm uint64
		if rapid.IntRange(0, 3).Draw(t, "large") == 0 {
			base := rapid.Int64Range(1000, 1<<40).Draw(t, "base")
			pick := func(l string) int64 {
				switch rapid.IntRange(0, 3).Draw(t, l+"-kind") {
				case 0:
					return 0
				case 1:
					return base + int64(rapid.IntRange(-2, 2).Draw(t, l+"-off"))
				case 2:
					return base + int64(delta) + int64(rapid.IntRange(-2, 2).Draw(t, l+"-doff"))
				default:
					return base - int64(delta) + int64(rapid.IntRange(-2, 2).Draw(t, l+"-moff"))
				}
			}
			from, until = pick("from"), pick("until")
			tv := pick("t")
			if tv < 0 {
				tv = 0
			}
			tm = uint64(tv)
			if from < 0 {
				from = 0
			}
			if until < 0 {
				until = 0
			}
		} else {
			from = int64(rapid.IntRange(0, 6).Draw(t, "from"))
			until = int64(rapid.IntRange(0, 6).Draw(t, "until"))
			tm = uint64(rapid.IntRange(0, 9).Draw(t, "t"))
			// the bounds are signed integers: a negative bound is a bound like any other (a negative upper bound, given or
			// defaulted from a negative lower bound, is never reached by an anchoring time)
			if rapid.IntRange(0, 3).Draw(t, "negativeBounds") == 0 {
				from = int64(rapid.IntRange(-8, 3).Draw(t, "negFrom"))
				until = int64(rapid.IntRange(-8, 3).Draw(t, "negUntil"))
				if rapid.IntRange(0, 3).Draw(t, "hugeNegative") == 0 {
					until = -rapid.Int64Range(1, 1<<40).Draw(t, "hugeNegUntil")
				}
			}
		}
		effective := windowEffective(from, until, tm, delta)

		// state: a valid create
		ctx := &opGenCtx{P: p, St: st, NoIetf: true, Classes: []string{"valid"}}
		cr := genOpCase(t, "create", ctx)
		if strings.Contains(cr.Class, "too-large") {
			st.Exclude("generated delta larger than the drawn maximum delta size")
			return
		}
		suffix := cr.Build.suffixFor(p.MultihashAlgorithms[0])
		m0 := anchorMeta{Time: 0, Canonical: "c0"}
		ref0, _ := refApply(&refModel{}, cr, m0, p)
		lib0, err := stack.Applier.Apply(anchoredBytes("create", cr.Bytes, suffix, m0), &protocol.ResolutionModel{})
		if err != nil {
			t.Fatalf("C09 harness: valid create refused: %v", err)
		}
		if cerr := compareModel(lib0, ref0, nil, nil); cerr != nil {
			t.Fatalf("C09 harness: create state differs: %v", cerr)
		}

		// the operation under test, valid apart from its window
		ctx2 := &opGenCtx{P: p, Doc: ref0.Doc, Suffix: suffix, Keys: chainKeys{Update: cr.Build.NextUpdate, Recovery: cr.Build.NextRecov},
			St: st, NoIetf: true, Classes: []string{"valid"}}
		c := genOpCase(t, typ, ctx2)
		if strings.Contains(c.Class, "too-large") {
			st.Exclude("generated delta larger than the drawn maximum delta size")
			return
		}
		// rebuild with the drawn window
		switch typ {
		case "update":
			c.Build = newUpdate(c.Build.Alg, suffix, c.Build.SignKey, c.Build.NextUpdate, c.Patches, from, until)
		case "recover":
			c.Build = newRecover(c.Build.Alg, suffix, c.Build.SignKey, c.Build.NextRecov, c.Build.NextUpdate, c.Patches, c.Origin, from, until)
		case "deactivate":
			c.Build = newDeactivate(c.Build.Alg, suffix, c.Build.SignKey, from, until)
		}
		c.Bytes, c.From, c.Until = c.Build.bytes(), from, until
		m := anchorMeta{Time: tm, Number: 1, Canonical: "c1"}
		want, wantOut := refApply(ref0, c, m, p)
		desc := fmt.Sprintf("%s from=%d until=%d t=%d maxOperationTimeDelta=%d (maxDelta=%d maxOp=%d maxHash=%d nonce=%d) effective=%v",
			typ, from, until, tm, delta, p.MaxDeltaSize, p.MaxOperationSize, p.MaxOperationHashLength, p.NonceSize, effective)
		opUnderTest := anchoredBytes(typ, c.Bytes, suffix, m)
		if rapid.IntRange(0, 2).Draw(t, "opAmongUnpublished") == 0 {
			// the operation may itself be listed among the state's unpublished operations: its window counts all the same
			withList := *lib0
			withList.UnpublishedOperations = append([]*operation.AnchoredOperation{opUnderTest}, lib0.UnpublishedOperations...)
			lib0 = &withList
		}
		if rapid.Bool().Draw(t, "sameRequestAtAnotherTimeFirst") {
			// the window is checked against the time of each anchoring: the same signed request, anchored at another time, goes
			// through the same applier first and gets the verdict of that time - which the later application does not inherit
			var others []uint64
			for _, cand := range []int64{from, until, from - 1, until + 1, from + int64(delta), from + int64(delta) + 1, int64(tm) + 1, int64(tm) - 1, 0, int64(tm) + 1000} {
				if cand >= 0 && uint64(cand) != tm {
					others = append(others, uint64(cand))
				}
			}
			m2 := anchorMeta{Time: rapid.SampledFrom(others).Draw(t, "otherTime"), Number: 1, Canonical: "c0"}
			want2, out2 := refApply(ref0, c, m2, p)
			got2, err2 := stack.Applier.Apply(anchoredBytes(typ, c.Bytes, suffix, m2), lib0)
			switch {
			case out2 == outRefused:
				if err2 == nil {
					t.Fatalf("C09 out-of-window deactivate applied at t=%d: %s", m2.Time, desc)
				}
			case err2 != nil:
				t.Fatalf("C09 operation refused at t=%d (%v) but the window rule gives %s: %s", m2.Time, err2, out2, desc)
			default:
				if cerr := compareModel(got2, want2, nil, lib0.UnpublishedOperations); cerr != nil {
					t.Fatalf("C09 state after windowed operation at t=%d differs (%s expected): %v\n %s", m2.Time, out2, cerr, desc)
				}
			}
			st.Label("same-request-at-two-times")
		}
		got, aerr := stack.Applier.Apply(opUnderTest, lib0)
		switch {
		case wantOut == outRefused:
			if aerr == nil {
				t.Fatalf("C09 out-of-window deactivate applied: %s", desc)
			}
		case aerr != nil:
			t.Fatalf("C09 operation refused (%v) but the window rule gives %s: %s", aerr, wantOut, desc)
		default:
			if cerr := compareModel(got, want, nil, lib0.UnpublishedOperations); cerr != nil {
				t.Fatalf("C09 state after windowed operation differs (%s expected): %v\n %s", wantOut, cerr, desc)
			}
		}
		// sanity of the rule's consequences as stated in the property
		if typ != "deactivate" && aerr == nil {
			if got.UpdateCommitment != c.UpdateC {
				t.Fatalf("C09 commitment not advanced by an out-of-window %s: %s", typ, desc)
			}
		}

		// metamorphic: another configuration with the same time delta and different other limits gives the same verdict
		p2 := genC09Protocol(t, "cfg2", delta)
		p2.NonceSize = p.NonceSize // the request has to stay acceptable: its nonces have this size
		stack2 := newStack(p2)
		lib02, err := stack2.Applier.Apply(anchoredBytes("create", cr.Bytes, suffix, m0), &protocol.ResolutionModel{})
		if err != nil {
			t.Fatalf("C09 harness: valid create refused under second configuration: %v", err)
		}
		got2, aerr2 := stack2.Applier.Apply(anchoredBytes(typ, c.Bytes, suffix, m), lib02)
		if (aerr == nil) != (aerr2 == nil) {
			t.Fatalf("C09 verdict depends on a limit other than the time delta: %v vs %v\n %s", aerr, aerr2, desc)
		}
		if aerr == nil {
			if cerr := compareModel(got2, want, nil, nil); cerr != nil {
				t.Fatalf("C09 state depends on a limit other than the time delta: %v\n %s", cerr, desc)
			}
		}

		// parser, not-yet-anchored request: the pair handed to the time validator
		rec := &recordingTimeValidator{}
		pp := operationparser.New(p, operationparser.WithAnchorTimeValidator(rec))
		_, perr := pp.Parse("did:sidetree", c.Bytes)
		if perr != nil {
			t.Fatalf("C09 parser refused a valid request: %v\n %s", perr, desc)
		}
		wantUntil := until
		if until == 0 && from != 0 {
			wantUntil = from + int64(delta)
		}
		if len(rec.calls) != 1 || rec.calls[0] != [2]int64{from, wantUntil} {
			t.Fatalf("C09 time validator received %v, want [[%d %d]]: %s", rec.calls, from, wantUntil, desc)
		}
		// the validator's verdict is the parser's verdict
		rec2 := &recordingTimeValidator{err: operationparser.ErrOperationExpired}
		if _, perr := operationparser.New(p, operationparser.WithAnchorTimeValidator(rec2)).Parse("did:sidetree", c.Bytes); perr == nil {
			t.Fatalf("C09 parser ignored the time validator's refusal: %s", desc)
		}

		boundary := from != 0 && int64(tm) >= from-1 && int64(tm) <= from+1 || until != 0 && int64(tm) >= until-1 && int64(tm) <= until+1 ||
			until == 0 && from != 0 && int64(tm) >= from+int64(delta)-1 && int64(tm) <= from+int64(delta)+1
		labels := []string{"type-" + typ, fmt.Sprintf("effective-%v", effective), "outcome-" + wantOut.String()}
		if until == 0 && from != 0 {
			labels = append(labels, "defaulted-expiry")
		}
		if from == 0 && until == 0 {
			labels = append(labels, "no-bounds")
		}
		if boundary {
			labels = append(labels, "boundary")
		}
		st.Case(boundary || (until == 0 && from != 0), fmt.Sprintf("%s|%d|%d|%d|%d", typ, from, until, tm, delta), labels...)
		st.Sample(typ, 2, func() interface{} {
			return map[string]interface{}{"type": typ, "from": from, "until": until, "t": tm, "maxOperationTimeDelta": delta, "effective": effective, "outcome": wantOut.String()}
		})
	})
}
