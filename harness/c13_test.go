package harness

// C13 — patch validation enforces the documented key, service and URI constraints.
// Oracle: verdict known by construction — a generated valid patch must pass; the same patch with exactly one labelled
// constraint violation must be refused. The key type x purpose table is written out from the documented intent.

import (
	"fmt"
	"strings"
	"testing"

	"github.com/trustbloc/sidetree-go/pkg/versions/1_0/docvalidator/didvalidator"
	"github.com/trustbloc/sidetree-go/pkg/versions/1_0/docvalidator/docvalidator"
	"github.com/trustbloc/sidetree-go/pkg/versions/1_0/operationparser/patchvalidator"
	"pgregory.net/rapid"
)

func validateValue(p map[string]interface{}) error {
	lp, err := libPatch(p)
	if err != nil {
		return err
	}
	v1 := patchvalidator.Validate(lp)
	// the verdict is a function of the patch: asking again (same value, and the same bytes parsed afresh) gives the same answer
	lp2, _ := libPatch(p)
	for _, again := range []error{patchvalidator.Validate(lp), patchvalidator.Validate(lp2)} {
		if (v1 == nil) != (again == nil) {
			panic(fmt.Sprintf("C13 the validator's verdict on one and the same patch changed between calls: first %v, then %v\n patch=%s", v1, again, refJCS(p)))
		}
	}
	return v1
}

type mutation struct {
	label string
	apply func(t *rapid.T, target map[string]interface{}, siblings *[]interface{}) // mutates one key/service entry (or the list)
}

var badIDs = []string{"", strings.Repeat("a", 51), "a b", "k#1", "é", "a/b", "k.1", "id:1", "a+b", strings.Repeat("Z", 64)}

func idMutations(kind string) []mutation {
	return []mutation{
		{kind + "-id-empty", func(t *rapid.T, e map[string]interface{}, _ *[]interface{}) { e["id"] = "" }},
		{kind + "-id-51", func(t *rapid.T, e map[string]interface{}, _ *[]interface{}) { e["id"] = strings.Repeat("x", 51) }},
		{kind + "-id-bad-char", func(t *rapid.T, e map[string]interface{}, _ *[]interface{}) {
			e["id"] = rapid.SampledFrom(badIDs[2:9]).Draw(t, "badID")
		}},
		{kind + "-id-missing", func(t *rapid.T, e map[string]interface{}, _ *[]interface{}) { delete(e, "id") }},
		{kind + "-id-duplicate", func(t *rapid.T, e map[string]interface{}, sib *[]interface{}) {
			dup := deepCopyValue(e).(map[string]interface{})
			pos := rapid.IntRange(0, len(*sib)).Draw(t, "dupPos")
			l := append([]interface{}{}, (*sib)[:pos]...)
			l = append(l, dup)
			*sib = append(l, (*sib)[pos:]...)
		}},
	}
}

func keyMutations() []mutation {
	m := idMutations("key")
	m = append(m,
		mutation{"key-type-missing", func(t *rapid.T, e map[string]interface{}, _ *[]interface{}) { delete(e, "type") }},
		mutation{"key-type-unknown", func(t *rapid.T, e map[string]interface{}, _ *[]interface{}) {
			e["type"] = rapid.SampledFrom([]string{"RsaVerificationKey2018", "", "jsonwebkey2020", "JsonWebKey2020 ", "Ed25519VerificationKey2019"}).Draw(t, "badType")
		}},
		mutation{"key-both-materials", func(t *rapid.T, e map[string]interface{}, _ *[]interface{}) {
			e["publicKeyJwk"] = docJWK(pool()[ktP256][0])
			e["publicKeyBase58"] = "4KHH6JVGnLaehtFN7a6mjqaJ24Gjo3zHocYKy4ZG1tnn"
		}},
		mutation{"key-no-material", func(t *rapid.T, e map[string]interface{}, _ *[]interface{}) {
			delete(e, "publicKeyJwk")
			delete(e, "publicKeyBase58")
		}},
		mutation{"key-base58-empty", func(t *rapid.T, e map[string]interface{}, _ *[]interface{}) {
			if e["type"] == tJWK2020 {
				e["type"] = tEd2018
				fixPurposes(e)
			}
			delete(e, "publicKeyJwk")
			e["publicKeyBase58"] = rapid.SampledFrom([]interface{}{"", nil}).Draw(t, "emptyB58")
		}},
		mutation{"key-jwk-missing-member", func(t *rapid.T, e map[string]interface{}, _ *[]interface{}) {
			delete(e, "publicKeyBase58")
			j := docJWK(pool()[ktP256][0])
			delete(j, rapid.SampledFrom([]string{"kty", "crv", "x"}).Draw(t, "jwkMember"))
			e["publicKeyJwk"] = j
		}},
		mutation{"key-jwk-empty-member", func(t *rapid.T, e map[string]interface{}, _ *[]interface{}) {
			delete(e, "publicKeyBase58")
			j := docJWK(pool()[ktP256][0])
			j[rapid.SampledFrom([]string{"kty", "crv", "x"}).Draw(t, "jwkMember")] = ""
			e["publicKeyJwk"] = j
		}},
		mutation{"key-jwk-rsa-incomplete", func(t *rapid.T, e map[string]interface{}, _ *[]interface{}) {
			delete(e, "publicKeyBase58")
			j := map[string]interface{}{"kty": "RSA", "n": "AQAB", "e": "AQAB"}
			delete(j, rapid.SampledFrom([]string{"n", "e"}).Draw(t, "rsaMember"))
			e["publicKeyJwk"] = j
		}},
		mutation{"key-jwk2020-with-base58", func(t *rapid.T, e map[string]interface{}, _ *[]interface{}) {
			e["type"] = tJWK2020
			delete(e, "publicKeyJwk")
			e["publicKeyBase58"] = "4KHH6JVGnLaehtFN7a6mjqaJ24Gjo3zHocYKy4ZG1tnn"
			fixPurposes(e)
		}},
		mutation{"key-unknown-member", func(t *rapid.T, e map[string]interface{}, _ *[]interface{}) {
			e[rapid.SampledFrom([]string{"controller", "extra", "publicKeyMultibase", "publicKeyPem", "Id"}).Draw(t, "extraMember")] = "x"
		}},
		mutation{"key-purposes-empty", func(t *rapid.T, e map[string]interface{}, _ *[]interface{}) { e["purposes"] = []interface{}{} }},
		mutation{"key-purposes-not-a-list", func(t *rapid.T, e map[string]interface{}, _ *[]interface{}) {
			// a purposes member that is present is a list of purposes: a single purpose as a string, an object, a number ... is not
			e["purposes"] = rapid.SampledFrom([]interface{}{pAuth, pAgree, map[string]interface{}{"0": pAuth}, float64(1), true, "", nil}).Draw(t, "purposesValue")
		}},
		mutation{"key-purpose-unknown", func(t *rapid.T, e map[string]interface{}, _ *[]interface{}) {
			ps, _ := e["purposes"].([]interface{})
			bad := rapid.SampledFrom([]string{"signing", "", "Authentication", "verificationMethod", "keyagreement"}).Draw(t, "badPurpose")
			pos := rapid.IntRange(0, len(ps)).Draw(t, "purposePos")
			l := append([]interface{}{}, ps[:pos]...)
			l = append(l, bad)
			e["purposes"] = append(l, ps[pos:]...)
		}},
		mutation{"key-six-purposes", func(t *rapid.T, e map[string]interface{}, _ *[]interface{}) {
			e["type"] = rapid.SampledFrom([]string{tBls, tJWK2020, tSecp2019}).Draw(t, "allPurposeType")
			if e["type"] == tJWK2020 {
				delete(e, "publicKeyBase58")
				e["publicKeyJwk"] = docJWK(pool()[ktP256][0])
			}
			e["purposes"] = []interface{}{pAuth, pAssert, pAgree, pDelegate, pInvoke, rapid.SampledFrom(allPurposes).Draw(t, "sixth")}
		}},
		mutation{"key-purpose-not-permitted", func(t *rapid.T, e map[string]interface{}, _ *[]interface{}) {
			// pick a (type, purpose) cell that the table forbids; keep the other purposes legal
			type cell struct{ typ, p string }
			var cells []cell
			for _, ty := range docKeyTypes {
				for _, p := range allPurposes {
					if !purposeAllowed(ty, p) {
						cells = append(cells, cell{ty, p})
					}
				}
			}
			c := cells[rapid.IntRange(0, len(cells)-1).Draw(t, "forbiddenCell")]
			e["type"] = c.typ
			var ps []interface{}
			for _, p := range allPurposes {
				if purposeAllowed(c.typ, p) && rapid.Bool().Draw(t, "keepLegal") {
					ps = append(ps, p)
				}
			}
			pos := rapid.IntRange(0, len(ps)).Draw(t, "cellPos")
			l := append([]interface{}{}, ps[:pos]...)
			l = append(l, c.p)
			e["purposes"] = append(l, ps[pos:]...)
		}},
	)
	return m
}

// fixPurposes drops purposes not allowed for the (possibly changed) type so that exactly one constraint is violated.
func fixPurposes(e map[string]interface{}) {
	typ, _ := e["type"].(string)
	ps, ok := e["purposes"].([]interface{})
	if !ok {
		return
	}
	var keep []interface{}
	for _, p := range ps {
		if purposeAllowed(typ, p.(string)) {
			keep = append(keep, p)
		}
	}
	if len(keep) == 0 {
		delete(e, "purposes")
	} else {
		e["purposes"] = keep
	}
}

func serviceMutations() []mutation {
	m := idMutations("service")
	m = append(m,
		mutation{"service-type-missing", func(t *rapid.T, e map[string]interface{}, _ *[]interface{}) { delete(e, "type") }},
		mutation{"service-type-empty", func(t *rapid.T, e map[string]interface{}, _ *[]interface{}) { e["type"] = "" }},
		mutation{"service-type-31", func(t *rapid.T, e map[string]interface{}, _ *[]interface{}) { e["type"] = strings.Repeat("T", 31) }},
		mutation{"service-endpoint-missing", func(t *rapid.T, e map[string]interface{}, _ *[]interface{}) { delete(e, "serviceEndpoint") }},
		mutation{"service-endpoint-null", func(t *rapid.T, e map[string]interface{}, _ *[]interface{}) { e["serviceEndpoint"] = nil }},
		mutation{"service-endpoint-bad-uri", func(t *rapid.T, e map[string]interface{}, _ *[]interface{}) {
			e["serviceEndpoint"] = rapid.SampledFrom(badEndpointURIs).Draw(t, "badURI")
		}},
		mutation{"service-endpoint-list-bad-uri-at-k", func(t *rapid.T, e map[string]interface{}, _ *[]interface{}) {
			n := rapid.IntRange(1, 4).Draw(t, "listLen")
			k := rapid.IntRange(0, n-1).Draw(t, "k")
			var l []interface{}
			for i := 0; i < n; i++ {
				if i == k {
					l = append(l, rapid.SampledFrom(badEndpointURIs).Draw(t, "badURI"))
				} else if rapid.IntRange(0, 3).Draw(t, "objEntry") == 0 {
					l = append(l, map[string]interface{}{"uri": "https://x.example"})
				} else {
					l = append(l, rapid.SampledFrom(goodURIs).Draw(t, "goodURI"))
				}
			}
			e["serviceEndpoint"] = l
			e["__k"] = float64(k)
		}},
	)
	return m
}

func TestC13_SingleViolation(t *testing.T) {
	st := statsFor("C13")
	keyMuts, svcMuts := keyMutations(), serviceMutations()
	check(t, "C13", 8000, func(t *rapid.T) {
		action := rapid.SampledFrom(allActions[1:]).Draw(t, "action") // the seven dedicated actions (ietf: see below and C11)
		empty := map[string]interface{}{}
		p := genDedicatedPatch(t, action, empty, false)
		if action == "replace" {
			d := p["document"].(map[string]interface{})
			if rapid.Bool().Draw(t, "forceKeys") {
				d["publicKeys"] = genKeyList(t, 1, 3, false)
			}
			if rapid.Bool().Draw(t, "forceSvcs") {
				d["services"] = genServiceList(t, 1, 2)
			}
		}
		// boundary-valid variants
		if l := keyListOf(p); len(l) > 0 && rapid.IntRange(0, 3).Draw(t, "boundaryID") == 0 {
			n := rapid.SampledFrom([]int{1, 50}).Draw(t, "idLen")
			used := map[string]bool{}
			for _, id := range idsOf(l) {
				used[id] = true
			}
			for _, c := range "yzQW_-" { // a boundary-length id that does not collide with another key of the patch
				if id := strings.Repeat(string(c), n); !used[id] {
					l[0].(map[string]interface{})["id"] = id
					break
				}
			}
		}
		if l := svcListOf(p); len(l) > 0 && rapid.IntRange(0, 3).Draw(t, "boundaryType") == 0 {
			l[0].(map[string]interface{})["type"] = strings.Repeat("t", rapid.SampledFrom([]int{1, 30}).Draw(t, "typeLen"))
		}
		if ids, ok := p["ids"].([]interface{}); ok && len(ids) > 0 && rapid.IntRange(0, 2).Draw(t, "repeatedRemoveID") == 0 {
			// the constraint on remove lists is "non-empty, every id valid": naming an id twice is not a violation
			again := ids[rapid.IntRange(0, len(ids)-1).Draw(t, "repeatWhich")]
			pos := rapid.IntRange(0, len(ids)).Draw(t, "repeatAt")
			l := append([]interface{}{}, ids[:pos]...)
			l = append(l, again)
			p["ids"] = append(l, ids[pos:]...)
		}
		if err := validateValue(p); err != nil {
			t.Fatalf("C13 valid %s patch refused: %v\n %s", action, err, refJCS(p))
		}
		st.Case(false, "", "valid-"+action)

		// one labelled violation
		bad := deepCopyValue(p).(map[string]interface{})
		label := ""
		keys, svcs := keyListOf(bad), svcListOf(bad)
		var choices []string
		if len(keys) > 0 {
			choices = append(choices, "key")
		}
		if len(svcs) > 0 {
			choices = append(choices, "service")
		}
		switch action {
		case "remove-public-keys", "remove-services":
			choices = append(choices, "ids-empty", "ids-bad-id")
		case "add-also-known-as", "remove-also-known-as":
			choices = append(choices, "uris-empty", "uris-bad", "uris-duplicate")
		case "replace":
			choices = append(choices, "replace-extra-member")
		case "add-public-keys":
			choices = append(choices, "list-empty")
		case "add-services":
			choices = append(choices, "list-empty")
		}
		switch rapid.SampledFrom(choices).Draw(t, "target") {
		case "key":
			i := rapid.IntRange(0, len(keys)-1).Draw(t, "keyIdx")
			m := keyMuts[rapid.IntRange(0, len(keyMuts)-1).Draw(t, "keyMut")]
			m.apply(t, keys[i].(map[string]interface{}), &keys)
			setKeyList(bad, keys)
			label = m.label
		case "service":
			i := rapid.IntRange(0, len(svcs)-1).Draw(t, "svcIdx")
			m := svcMuts[rapid.IntRange(0, len(svcMuts)-1).Draw(t, "svcMut")]
			e := svcs[i].(map[string]interface{})
			m.apply(t, e, &svcs)
			label = m.label
			if k, ok := e["__k"]; ok {
				delete(e, "__k")
				if k.(float64) > 0 {
					label += ">0"
				}
			}
			setSvcList(bad, svcs)
		case "ids-empty":
			bad["ids"] = []interface{}{}
			label = "ids-empty"
		case "ids-bad-id":
			ids := bad["ids"].([]interface{})
			pos := rapid.IntRange(0, len(ids)).Draw(t, "idPos")
			l := append([]interface{}{}, ids[:pos]...)
			l = append(l, rapid.SampledFrom(badIDs).Draw(t, "badID"))
			bad["ids"] = append(l, ids[pos:]...)
			label = "ids-bad-id"
		case "uris-empty":
			bad["uris"] = []interface{}{}
			label = "uris-empty"
		case "uris-bad":
			us := bad["uris"].([]interface{})
			pos := rapid.IntRange(0, len(us)).Draw(t, "uriPos")
			l := append([]interface{}{}, us[:pos]...)
			l = append(l, rapid.SampledFrom(badAkaURIs).Draw(t, "badAka"))
			bad["uris"] = append(l, us[pos:]...)
			label = "uris-bad"
		case "uris-duplicate":
			us := bad["uris"].([]interface{})
			bad["uris"] = append(append([]interface{}{}, us...), us[rapid.IntRange(0, len(us)-1).Draw(t, "dupIdx")])
			label = "uris-duplicate"
		case "replace-extra-member":
			bad["document"].(map[string]interface{})[rapid.SampledFrom([]string{"id", "alsoKnownAs", "publicKey", "service", "x", "@context"}).Draw(t, "extra")] = []interface{}{}
			label = "replace-extra-member"
		case "list-empty":
			if action == "add-public-keys" {
				bad["publicKeys"] = []interface{}{}
			} else {
				bad["services"] = []interface{}{}
			}
			label = "list-empty"
		}
		if err := validateValue(bad); err == nil {
			t.Fatalf("C13 %s patch with violation %q accepted:\n %s\n (valid original: %s)", action, label, refJCS(bad), refJCS(p))
		}
		st.Case(true, action+"|"+label+"|"+refJCS(bad), "violation-"+label, "cell-"+action+"/"+label)
		st.Sample(action+"/"+label, 1, func() interface{} { return map[string]interface{}{"valid": p, "violation": label, "refused": bad} })
	})
}

func keyListOf(p map[string]interface{}) []interface{} {
	if l, ok := p["publicKeys"].([]interface{}); ok {
		return l
	}
	if d, ok := p["document"].(map[string]interface{}); ok {
		l, _ := d["publicKeys"].([]interface{})
		return l
	}
	return nil
}

func svcListOf(p map[string]interface{}) []interface{} {
	if l, ok := p["services"].([]interface{}); ok {
		return l
	}
	if d, ok := p["document"].(map[string]interface{}); ok {
		l, _ := d["services"].([]interface{})
		return l
	}
	return nil
}

func setKeyList(p map[string]interface{}, l []interface{}) {
	if _, ok := p["publicKeys"]; ok {
		p["publicKeys"] = l
	} else if d, ok := p["document"].(map[string]interface{}); ok {
		d["publicKeys"] = l
	}
}

func setSvcList(p map[string]interface{}, l []interface{}) {
	if _, ok := p["services"]; ok {
		p["services"] = l
	} else if d, ok := p["document"].(map[string]interface{}); ok {
		d["services"] = l
	}
}

// TestC13_Matrix enumerates the complete key type x purpose table (plus general keys and unknown types), for both
// add-public-keys and replace: the verdict must equal the documented table. Exhaustive, not sampled.
func TestC13_Matrix(t *testing.T) {
	st := statsFor("C13")
	types := append(append([]string{}, docKeyTypes...), "RsaVerificationKey2018")
	for _, action := range []string{"add-public-keys", "replace"} {
		for _, typ := range types {
			for pi := -1; pi < len(allPurposes); pi++ {
				for _, material := range []string{"jwk", "b58"} {
					key := map[string]interface{}{"id": "k1", "type": typ}
					if material == "jwk" {
						key["publicKeyJwk"] = docJWK(pool()[ktP256][0])
					} else {
						key["publicKeyBase58"] = "4KHH6JVGnLaehtFN7a6mjqaJ24Gjo3zHocYKy4ZG1tnn"
					}
					want := typ != "RsaVerificationKey2018"
					pname := "general"
					if pi >= 0 {
						pname = allPurposes[pi]
						key["purposes"] = []interface{}{pname}
						want = want && purposeAllowed(typ, pname)
					}
					if typ == tJWK2020 && material == "b58" {
						want = false
					}
					var p map[string]interface{}
					if action == "replace" {
						p = map[string]interface{}{"action": action, "document": map[string]interface{}{"publicKeys": []interface{}{key}}}
					} else {
						p = map[string]interface{}{"action": action, "publicKeys": []interface{}{key}}
					}
					err := validateValue(p)
					if (err == nil) != want {
						t.Errorf("C13 matrix: %s type=%s purpose=%s material=%s: accepted=%v, documented table says %v (%v)", action, typ, pname, material, err == nil, want, err)
					}
					st.Case(true, "matrix|"+action+typ+pname+material, "matrix-cell")
				}
			}
		}
	}
	st.Note("key type x purpose matrix enumerated exhaustively: 7 types x (5 purposes + general) x 2 materials x 2 actions = 168 cells")
}

// TestC13_OriginalDocuments: documents carrying an id (or, for DID documents, a context) are refused.
func TestC13_OriginalDocuments(t *testing.T) {
	st := statsFor("C13")
	dv, didv := docvalidator.New(), didvalidator.New()
	check(t, "C13", 1500, func(t *rapid.T) {
		doc := genDocument(t, false)
		b := []byte(spell(t, doc, 1))
		if err := dv.IsValidOriginalDocument(b); err != nil {
			t.Fatalf("C13 generic validator refused a document without id: %v\n%s", err, b)
		}
		if err := didv.IsValidOriginalDocument(b); err != nil {
			t.Fatalf("C13 DID validator refused a document without id/context: %v\n%s", err, b)
		}
		kind := rapid.IntRange(0, 3).Draw(t, "carry")
		bad := deepCopyValue(doc).(map[string]interface{})
		label := ""
		switch kind {
		case 0:
			bad["id"] = rapid.SampledFrom([]string{"did:example:123", "x", "did:sidetree:abc"}).Draw(t, "id")
			label = "with-id"
			if err := dv.IsValidOriginalDocument([]byte(spell(t, bad, 1))); err == nil {
				t.Fatalf("C13 generic validator accepted a document with id: %s", refJCS(bad))
			}
		case 1:
			bad["@context"] = []interface{}{"https://www.w3.org/ns/did/v1"}
			if rapid.Bool().Draw(t, "twoContexts") {
				bad["@context"] = []interface{}{"https://www.w3.org/ns/did/v1", map[string]interface{}{"@base": "did:example:123"}}
			}
			label = "with-context-list"
		case 3:
			// a context of any other JSON shape is a context too
			bad["@context"] = rapid.SampledFrom([]interface{}{map[string]interface{}{"@vocab": "https://www.w3.org/ns/did#"}, map[string]interface{}{"@base": "did:example:123"},
				float64(1), true, []interface{}{map[string]interface{}{"@base": "did:example:123"}}}).Draw(t, "contextValue")
			label = "with-context-other-shape"
		default:
			bad["@context"] = "https://www.w3.org/ns/did/v1"
			label = "with-context-string"
		}
		if err := didv.IsValidOriginalDocument([]byte(spell(t, bad, 1))); err == nil {
			t.Fatalf("C13 DID validator accepted a document %s: %s", label, refJCS(bad))
		}
		st.Case(true, label+refJCS(bad), "original-"+label)
	})
}
