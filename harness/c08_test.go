package harness

// C08 — client-built requests are accepted and yield the requested document.
// Oracle: every request produced by the library's builders / Sidetree client must parse (non-batch) under the matching
// protocol; folding them through the applier must give refCompose's document, refHash commitments and the deactivated flag;
// the anchored form must be refJCS of the same request and apply to the same state; documented refusals by construction.

import (
	"encoding/json"
	"fmt"
	"testing"

	gojose "github.com/go-jose/go-jose/v3"
	docdid "github.com/trustbloc/did-go/doc/did"
	"github.com/trustbloc/did-go/doc/did/endpoint"
	kmsjwk "github.com/trustbloc/kms-go/doc/jose/jwk"
	"pgregory.net/rapid"

	"github.com/trustbloc/sidetree-go/pkg/api/protocol"
	"github.com/trustbloc/sidetree-go/pkg/commitment"
	"github.com/trustbloc/sidetree-go/pkg/jws"
	"github.com/trustbloc/sidetree-go/pkg/patch"
	"github.com/trustbloc/sidetree-go/pkg/util/pubkey"
	"github.com/trustbloc/sidetree-go/pkg/vdr/sidetreelongform/sidetree"
	sdoc "github.com/trustbloc/sidetree-go/pkg/vdr/sidetreelongform/sidetree/doc"
	"github.com/trustbloc/sidetree-go/pkg/vdr/sidetreelongform/sidetree/option/create"
	"github.com/trustbloc/sidetree-go/pkg/vdr/sidetreelongform/sidetree/option/deactivate"
	"github.com/trustbloc/sidetree-go/pkg/vdr/sidetreelongform/sidetree/option/recovery"
	"github.com/trustbloc/sidetree-go/pkg/vdr/sidetreelongform/sidetree/option/update"
	"github.com/trustbloc/sidetree-go/pkg/versions/1_0/client"
	"github.com/trustbloc/sidetree-go/pkg/versions/1_0/model"
)

// libJWKOf obtains the JWK the way a client does (library conversion), optionally with a nonce.
func libJWKOf(t *rapid.T, k *Key) *jws.JWK {
	j, err := pubkey.GetPublicKeyJWK(k.Public())
	if err != nil {
		t.Fatalf("C08 GetPublicKeyJWK: %v", err)
	}
	j.Nonce = k.Nonce
	return j
}

func libCommitment(t *rapid.T, k *Key, alg uint) string {
	c, err := commitment.GetCommitment(libJWKOf(t, k), alg)
	if err != nil {
		t.Fatalf("C08 GetCommitment: %v", err)
	}
	if c != k.Commitment(alg) {
		t.Fatalf("C08 client-side commitment %q differs from the reference %q", c, k.Commitment(alg))
	}
	return c
}

type clientSigner struct {
	libSigner
	jwk *jws.JWK
}

func (s *clientSigner) PublicKeyJWK() *jws.JWK { return s.jwk }

// patchFromConstructor builds a library patch through the public constructors from a patch value.
func patchFromConstructor(t *rapid.T, p map[string]interface{}) patch.Patch {
	var lp patch.Patch
	var err error
	switch p["action"] {
	case "add-public-keys":
		lp, err = patch.NewAddPublicKeysPatch(refJCS(p["publicKeys"]))
	case "remove-public-keys":
		lp, err = patch.NewRemovePublicKeysPatch(refJCS(p["ids"]))
	case "add-services":
		lp, err = patch.NewAddServiceEndpointsPatch(refJCS(p["services"]))
	case "remove-services":
		lp, err = patch.NewRemoveServiceEndpointsPatch(refJCS(p["ids"]))
	case "add-also-known-as":
		lp, err = patch.NewAddAlsoKnownAs(refJCS(p["uris"]))
	case "remove-also-known-as":
		lp, err = patch.NewRemoveAlsoKnownAs(refJCS(p["uris"]))
	case "replace":
		lp, err = patch.NewReplacePatch(refJCS(p["document"]))
	case "ietf-json-patch":
		lp, err = patch.NewJSONPatch(refJCS(p["patches"]))
	}
	if err != nil {
		t.Fatalf("C08 patch constructor refused valid input %s: %v", refJCS(p), err)
	}
	return lp
}

type lifecycleStep struct {
	typ     string
	req     []byte
	doc     map[string]interface{} // expected document after the step
	updateC string
	recovC  string
	origin  interface{}
	from    int64
	until   int64
}

// verifyLifecycle parses and folds the produced requests and compares with the expectations.
func verifyLifecycle(t *rapid.T, p protocol.Protocol, ns string, steps []lifecycleStep) {
	stack := newStack(p)
	rm, rm2 := &protocol.ResolutionModel{}, &protocol.ResolutionModel{}
	var wantOrigin interface{}
	suffix := ""
	for i, s := range steps {
		op, err := stack.Parser.Parse(ns, s.req)
		if err != nil {
			t.Fatalf("C08 step %d: client-built %s request refused by the parser: %v\n%s", i, s.typ, err, s.req)
		}
		if string(op.Type) != s.typ {
			t.Fatalf("C08 step %d: type %s want %s", i, op.Type, s.typ)
		}
		if i == 0 {
			suffix = op.UniqueSuffix
		} else if op.UniqueSuffix != suffix {
			t.Fatalf("C08 step %d: request addresses suffix %q, the DID's suffix is %q", i, op.UniqueSuffix, suffix)
		}
		// anchored form preserves the request
		parsed, err := stack.Parser.ParseOperation(ns, s.req, false)
		if err != nil {
			t.Fatalf("C08 step %d: ParseOperation: %v", i, err)
		}
		anch, err := model.GetAnchoredOperation(parsed)
		if err != nil {
			t.Fatalf("C08 step %d: GetAnchoredOperation: %v", i, err)
		}
		var reqVal interface{}
		if err := json.Unmarshal(s.req, &reqVal); err != nil {
			t.Fatalf("C08 step %d: request is not JSON: %v", i, err)
		}
		if string(anch.OperationRequest) != refJCS(reqVal) {
			t.Fatalf("C08 step %d: anchored bytes are not the canonical encoding of the request\n anchored %s\n request  %s", i, anch.OperationRequest, refJCS(reqVal))
		}
		if anch.UniqueSuffix != op.UniqueSuffix || anch.Type != op.Type || originCanon(anch.AnchorOrigin) != originCanon(op.AnchorOrigin) {
			t.Fatalf("C08 step %d: anchored form lost suffix/type/anchor origin", i)
		}
		if (s.typ == "create" || s.typ == "recover") && originCanon(op.AnchorOrigin) != originCanon(s.origin) {
			t.Fatalf("C08 step %d: anchor origin %s want %s", i, originCanon(op.AnchorOrigin), originCanon(s.origin))
		}
		// the reveal value answers the commitment installed by the predecessor on the same chain
		if i > 0 {
			rv, err := stack.Parser.GetRevealValue(s.req)
			if err != nil {
				t.Fatalf("C08 step %d: GetRevealValue: %v", i, err)
			}
			derived, err := commitment.GetCommitmentFromRevealValue(rv)
			wantC := steps[i-1].recovC
			if s.typ == "update" {
				wantC = steps[i-1].updateC
			}
			if err != nil || derived != wantC {
				t.Fatalf("C08 step %d (%s): reveal value maps to commitment %q (%v), the state holds %q", i, s.typ, derived, err, wantC)
			}
		}
		m := anchorMeta{Time: uint64(10 + i), Number: uint64(i), Canonical: fmt.Sprint("c", i)}
		if s.from != 0 || s.until != 0 {
			// anchored inside the requested window: at its first or at its last moment
			first, last := s.from, s.until
			if last == 0 {
				last = s.from + int64(p.MaxOperationTimeDelta)
			}
			m.Time = uint64(last)
			if rapid.Bool().Draw(t, "anchorAtStart") {
				m.Time = uint64(first)
			}
		}
		a1 := anchoredBytes(s.typ, s.req, suffix, m)
		a2 := anchoredBytes(s.typ, anch.OperationRequest, suffix, m)
		next, err := stack.Applier.Apply(a1, rm)
		if err != nil {
			t.Fatalf("C08 step %d: client-built %s refused by the applier: %v", i, s.typ, err)
		}
		next2, err := stack.Applier.Apply(a2, rm2)
		if err != nil {
			t.Fatalf("C08 step %d: anchored form refused by the applier: %v", i, err)
		}
		if docCanon(next.Doc) != docCanon(next2.Doc) || next.UpdateCommitment != next2.UpdateCommitment || next.RecoveryCommitment != next2.RecoveryCommitment ||
			next.Deactivated != next2.Deactivated || originCanon(next.AnchorOrigin) != originCanon(next2.AnchorOrigin) {
			t.Fatalf("C08 step %d: anchored form applies to a different state than the original bytes", i)
		}
		rm, rm2 = next, next2
		if g, w := docCanon(rm.Doc), refJCS(normalizeDoc(s.doc)); g != w {
			t.Fatalf("C08 step %d (%s): document differs from what the caller asked for\n got  %s\n want %s\n request %s", i, s.typ, g, w, s.req)
		}
		if rm.UpdateCommitment != s.updateC || rm.RecoveryCommitment != s.recovC {
			t.Fatalf("C08 step %d (%s): commitments %q/%q want %q/%q", i, s.typ, rm.UpdateCommitment, rm.RecoveryCommitment, s.updateC, s.recovC)
		}
		if rm.Deactivated != (s.typ == "deactivate") {
			t.Fatalf("C08 step %d: deactivated flag = %v", i, rm.Deactivated)
		}
		// the anchor origin is the one the last create / recover asked for (none, if it asked for none); updates and the
		// deactivate keep it
		if s.typ == "create" || s.typ == "recover" {
			wantOrigin = s.origin
		}
		if originCanon(rm.AnchorOrigin) != originCanon(wantOrigin) {
			t.Fatalf("C08 step %d (%s): state carries anchor origin %s, the caller asked for %s", i, s.typ, originCanon(rm.AnchorOrigin), originCanon(wantOrigin))
		}
	}
}

func genC08Protocol(t *rapid.T, alg uint) protocol.Protocol {
	p := wideProtocol()
	p.MultihashAlgorithms = []uint{alg}
	switch rapid.IntRange(0, 2).Draw(t, "bothAlgs") {
	case 1:
		p.MultihashAlgorithms = []uint{alg, 37 - alg}
	case 2:
		p.MultihashAlgorithms = []uint{37 - alg, alg}
	}
	p.MaxOperationTimeDelta = rapid.SampledFrom([]uint64{0, 5, 600}).Draw(t, "timeDelta")
	return p
}

// stepAlg draws the hash algorithm a lifecycle step uses for the hashes it creates (a DID may migrate between the
// configured algorithms; the reveal value always answers the commitment with that commitment's algorithm).
func stepAlg(t *rapid.T, p protocol.Protocol) uint {
	return rapid.SampledFrom(p.MultihashAlgorithms).Draw(t, "stepAlg")
}

// genUpdatePatches draws update patch values: remove / add with overlaps (the client's documented order: removes first).
func genUpdatePatches(t *rapid.T, cur map[string]interface{}) ([]interface{}, bool) {
	var out []interface{}
	overlap := false
	if rapid.IntRange(0, 5).Draw(t, "replaceFirst") == 0 {
		// an update may start over: replace discards the whole document (also-known-as and every other member included)
		out = append(out, map[string]interface{}{"action": "replace", "document": map[string]interface{}{
			"publicKeys": []interface{}{genDocKey(t, "k-replaced", true)}, "services": []interface{}{genDocService(t, "s-replaced")}}})
		return out, false
	}
	rmIDs := genIDsNear(t, idsOf(cur["publicKey"]), 0, 2, "rmKey")
	if len(rmIDs) > 0 {
		out = append(out, map[string]interface{}{"action": "remove-public-keys", "ids": toIfaceList(rmIDs)})
	}
	if rapid.Bool().Draw(t, "rmSvc") {
		out = append(out, map[string]interface{}{"action": "remove-services", "ids": toIfaceList(genIDsNear(t, idsOf(cur["service"]), 1, 2, "rmSvcID"))})
	}
	if rapid.Bool().Draw(t, "addAka") {
		out = append(out, map[string]interface{}{"action": "add-also-known-as", "uris": genURIList(t, 1, 2)})
	}
	if rapid.Bool().Draw(t, "addSvc") {
		var svcs []interface{}
		for _, id := range genIDsNear(t, idsOf(cur["service"]), 1, 2, "addSvcID") {
			svcs = append(svcs, genDocService(t, id))
		}
		out = append(out, map[string]interface{}{"action": "add-services", "services": svcs})
	}
	addIDs := genIDsNear(t, append(idsOf(cur["publicKey"]), rmIDs...), 0, 2, "addKey")
	if len(addIDs) > 0 || len(out) == 0 {
		if len(addIDs) == 0 {
			addIDs = []string{"k-new"}
		}
		var keys []interface{}
		for _, id := range addIDs {
			keys = append(keys, genDocKey(t, id, true))
			for _, r := range rmIDs {
				if r == id {
					overlap = true
				}
			}
		}
		out = append(out, map[string]interface{}{"action": "add-public-keys", "publicKeys": keys})
	}
	return out, overlap
}

func TestC08_Builders(t *testing.T) {
	st := statsFor("C08")
	check(t, "C08", 500, func(t *rapid.T) {
		alg := rapid.SampledFrom([]uint{18, 19}).Draw(t, "alg")
		p := genC08Protocol(t, alg)
		ns := "did:sidetree"
		key := func(l string) *Key { return genNoncedKey(t, p, l) }
		signerOf := func(k *Key) client.Signer {
			return libSignerFor(k, k.Type.Alg(), rapid.SampledFrom([]string{"", "kid-1"}).Draw(t, "kid"))
		}
		var steps []lifecycleStep
		labels := []string{fmt.Sprintf("alg-%d", alg)}
		overlapSeen, typeChange := false, false

		// create
		rec, upd := key("recovery0"), key("update0")
		if rec.Commitment(alg) == upd.Commitment(alg) {
			upd = otherKey(t, rec)
		}
		doc := map[string]interface{}{}
		if ks := genKeyList(t, 1, 3, true); len(ks) > 0 {
			doc["publicKey"] = ks
		}
		if ss := genServiceList(t, 0, 2); len(ss) > 0 {
			doc["service"] = ss
		}
		if rapid.Bool().Draw(t, "aka") {
			doc["alsoKnownAs"] = genURIList(t, 1, 2)
		}
		origin := genOrigin(t)
		info := &client.CreateRequestInfo{RecoveryCommitment: libCommitment(t, rec, alg), UpdateCommitment: libCommitment(t, upd, alg),
			AnchorOrigin: origin, Type: rapid.SampledFrom([]string{"", "0001"}).Draw(t, "type"), MultihashCode: alg}
		if rapid.Bool().Draw(t, "opaque") {
			info.OpaqueDocument = spell(t, doc, rapid.IntRange(0, 1).Draw(t, "style"))
			labels = append(labels, "create-opaque")
		} else {
			for _, name := range []string{"publicKey", "service", "alsoKnownAs"} {
				if v, ok := doc[name]; ok {
					action := map[string]string{"publicKey": "add-public-keys", "service": "add-services", "alsoKnownAs": "add-also-known-as"}[name]
					vk := valueKeyOf[action]
					info.Patches = append(info.Patches, patchFromConstructor(t, map[string]interface{}{"action": action, vk: v}))
				}
			}
			labels = append(labels, "create-patches")
		}
		req, err := client.NewCreateRequest(info)
		if err != nil {
			t.Fatalf("C08 NewCreateRequest refused valid input: %v", err)
		}
		steps = append(steps, lifecycleStep{typ: "create", req: req, doc: doc, updateC: upd.Commitment(alg), recovC: rec.Commitment(alg), origin: origin})
		var reqVal map[string]interface{}
		_ = json.Unmarshal(req, &reqVal)
		suffix := refHash(reqVal["suffixData"], p.MultihashAlgorithms[0])

		// documented refusals of the create builder
		bad := *info
		bad.UpdateCommitment = bad.RecoveryCommitment
		if _, err := client.NewCreateRequest(&bad); err == nil {
			t.Fatalf("C08 NewCreateRequest accepted equal update and recovery commitments")
		}
		bad = *info
		bad.RecoveryCommitment = rec.Commitment(37 - alg)
		if _, err := client.NewCreateRequest(&bad); err == nil {
			t.Fatalf("C08 NewCreateRequest accepted a recovery commitment of another hash algorithm")
		}
		bad = *info
		bad.UpdateCommitment = upd.Commitment(37 - alg)
		if _, err := client.NewCreateRequest(&bad); err == nil {
			t.Fatalf("C08 NewCreateRequest accepted an update commitment of another hash algorithm")
		}
		bad = *info
		bad.MultihashCode = rapid.SampledFrom([]uint{0x99, 55, 0x7fff}).Draw(t, "unsupportedCode")
		if _, err := client.NewCreateRequest(&bad); err == nil {
			t.Fatalf("C08 NewCreateRequest accepted unsupported multihash code %d", bad.MultihashCode)
		}

		cur := deepCopyValue(doc).(map[string]interface{})
		updAlg, recAlg := alg, alg // algorithm each current commitment was made with
		recDone := false
		phases := rapid.IntRange(0, 2).Draw(t, "updatesBefore")
		total := phases + 1 + rapid.IntRange(0, 2).Draw(t, "updatesAfter")
		for i := 0; i < total; i++ {
			if i == phases && !recDone {
				// recover
				recDone = true
				a := stepAlg(t, p)
				nr, nu := key("nextRecovery"), key("nextUpdate")
				if nr.Commitment(a) == rec.Commitment(a) {
					nr = otherKey(t, rec)
				}
				if nu.Commitment(a) == nr.Commitment(a) {
					nu = otherKey(t, nr)
				}
				if nr.Type != rec.Type {
					typeChange = true
				}
				ndoc := map[string]interface{}{"publicKey": genKeyList(t, 1, 3, true)}
				if rapid.Bool().Draw(t, "recSvc") {
					ndoc["service"] = genServiceList(t, 1, 2)
				}
				rorigin := genOrigin(t)
				from, until := int64(0), int64(0)
				if rapid.Bool().Draw(t, "window") {
					from, until = int64(rapid.IntRange(1, 50).Draw(t, "from")), 0
					if rapid.Bool().Draw(t, "until") {
						until = from + int64(rapid.IntRange(0, 50).Draw(t, "len"))
					}
				}
				ri := &client.RecoverRequestInfo{DidSuffix: suffix, RecoveryKey: libJWKOf(t, rec), OpaqueDocument: refJCS(ndoc),
					RecoveryCommitment: libCommitment(t, nr, a), UpdateCommitment: libCommitment(t, nu, a), AnchorOrigin: rorigin,
					AnchorFrom: from, AnchorUntil: until, MultihashCode: a, Signer: signerOf(rec), RevealValue: rec.Reveal(recAlg)}
				rr, err := client.NewRecoverRequest(ri)
				if err != nil {
					t.Fatalf("C08 NewRecoverRequest refused valid input: %v", err)
				}
				steps = append(steps, lifecycleStep{typ: "recover", req: rr, doc: ndoc, updateC: nu.Commitment(a), recovC: nr.Commitment(a), origin: rorigin, from: from, until: until})
				if a != recAlg {
					labels = append(labels, "algorithm-migration")
				}
				// refusal: next recovery commitment is the signing key's own
				badR := *ri
				badR.RecoveryCommitment = libCommitment(t, rec, a)
				if _, err := client.NewRecoverRequest(&badR); err == nil {
					t.Fatalf("C08 NewRecoverRequest accepted re-use of the recovery key")
				}
				rec, upd, cur = nr, nu, deepCopyValue(ndoc).(map[string]interface{})
				updAlg, recAlg = a, a
				continue
			}
			// update
			vals, overlap := genUpdatePatches(t, cur)
			if overlap {
				overlapSeen = true
			}
			a := stepAlg(t, p)
			next := key("nextUpdate")
			if next.Commitment(a) == upd.Commitment(a) {
				next = otherKey(t, upd)
			}
			var lps []patch.Patch
			for _, v := range vals {
				lps = append(lps, patchFromConstructor(t, v.(map[string]interface{})))
			}
			ufrom, uuntil := int64(0), int64(0)
			if rapid.IntRange(0, 2).Draw(t, "updateWindow") == 0 {
				ufrom = int64(rapid.IntRange(1, 50).Draw(t, "ufrom"))
				if rapid.Bool().Draw(t, "uuntil") {
					uuntil = ufrom + int64(rapid.IntRange(0, 50).Draw(t, "ulen"))
				}
			}
			ui := &client.UpdateRequestInfo{DidSuffix: suffix, Patches: lps, UpdateCommitment: libCommitment(t, next, a), UpdateKey: libJWKOf(t, upd),
				MultihashCode: a, Signer: signerOf(upd), RevealValue: upd.Reveal(updAlg), AnchorFrom: ufrom, AnchorUntil: uuntil}
			ur, err := client.NewUpdateRequest(ui)
			if err != nil {
				t.Fatalf("C08 NewUpdateRequest refused valid input: %v", err)
			}
			ndoc, err := refCompose(cur, vals)
			if err != nil {
				t.Fatalf("harness: %v", err)
			}
			steps = append(steps, lifecycleStep{typ: "update", req: ur, doc: ndoc, updateC: next.Commitment(a), recovC: rec.Commitment(recAlg), from: ufrom, until: uuntil})
			if a != updAlg {
				labels = append(labels, "algorithm-migration")
			}
			badU := *ui
			badU.UpdateCommitment = libCommitment(t, upd, a)
			if _, err := client.NewUpdateRequest(&badU); err == nil {
				t.Fatalf("C08 NewUpdateRequest accepted re-use of the update key")
			}
			upd, cur, updAlg = next, ndoc, a
		}
		// deactivate
		dfrom, duntil := int64(0), int64(0)
		if rapid.IntRange(0, 2).Draw(t, "deactivateWindow") == 0 {
			duntil = int64(rapid.IntRange(1, 90).Draw(t, "duntil"))
			if rapid.Bool().Draw(t, "dfrom") {
				dfrom = int64(rapid.IntRange(1, int(duntil)).Draw(t, "dfromv"))
			}
		}
		dr, err := client.NewDeactivateRequest(&client.DeactivateRequestInfo{DidSuffix: suffix, RecoveryKey: libJWKOf(t, rec), Signer: signerOf(rec), RevealValue: rec.Reveal(recAlg),
			AnchorFrom: dfrom, AnchorUntil: duntil})
		if err != nil {
			t.Fatalf("C08 NewDeactivateRequest refused valid input: %v", err)
		}
		steps = append(steps, lifecycleStep{typ: "deactivate", req: dr, doc: map[string]interface{}{}, from: dfrom, until: duntil})

		verifyLifecycle(t, p, ns, steps)
		kinds := ""
		for _, s := range steps {
			kinds += s.typ[:1]
		}
		if overlapSeen {
			labels = append(labels, "update-remove+add-same-id")
		}
		if typeChange {
			labels = append(labels, "recover-changes-key-type")
		}
		st.Case(overlapSeen && typeChange, string(steps[0].req)+kinds, append(labels, "lifecycle-"+kinds)...)
		st.Sample("builders", 2, func() interface{} {
			return map[string]interface{}{"lifecycle": kinds, "create": mustJSON(string(steps[0].req))}
		})
	})
}

// ---- through the Sidetree client ----

func sidetreeKey(t *rapid.T, id string, k *Key, typ string, purposes []string, b58 bool) sdoc.PublicKey {
	pk := sdoc.PublicKey{ID: id, Type: typ, Purposes: purposes}
	if b58 {
		x, _ := k.XY()
		pk.B58Key = b58encode(x)
	} else {
		pk.JWK = kmsjwk.JWK{JSONWebKey: gojose.JSONWebKey{Key: k.Public()}}
	}
	return pk
}

// expectedKey is the document entry the caller asked for with sidetreeKey.
func expectedKey(id string, k *Key, typ string, purposes []string, b58 bool) map[string]interface{} {
	e := map[string]interface{}{"id": id, "type": typ, "purposes": toIfaceList(purposes)}
	if b58 {
		x, _ := k.XY()
		e["publicKeyBase58"] = b58encode(x)
	} else {
		e["publicKeyJwk"] = docJWK(k)
	}
	return e
}

func genClientKeys(t *rapid.T, ids []string) ([]sdoc.PublicKey, []interface{}) {
	var pks []sdoc.PublicKey
	var want []interface{}
	for _, id := range ids {
		typ := rapid.SampledFrom([]string{tJWK2020, tEd2018, tSecp2019, tEd2020}).Draw(t, "clientKeyType")
		var k *Key
		switch typ {
		case tEd2018, tEd2020:
			k = genKeyOf(t, ktEd25519, "clientKey")
		case tSecp2019:
			k = genKeyOf(t, ktSecp256k1, "clientKey")
		default:
			k = genKey(t, "clientKey")
		}
		var allowed []string
		for _, p := range allPurposes {
			if purposeAllowed(typ, p) {
				allowed = append(allowed, p)
			}
		}
		n := rapid.IntRange(1, len(allowed)).Draw(t, "nPurposes")
		purposes := rapid.Permutation(allowed).Draw(t, "purposes")[:n]
		b58 := typ == tEd2018 && rapid.Bool().Draw(t, "b58")
		pks = append(pks, sidetreeKey(t, id, k, typ, purposes, b58))
		want = append(want, expectedKey(id, k, typ, purposes, b58))
	}
	return pks, want
}

func genClientServices(t *rapid.T, ids []string) ([]docdid.Service, []interface{}) {
	var svcs []docdid.Service
	var want []interface{}
	for _, id := range ids {
		uri := rapid.SampledFrom(goodURIs[:4]).Draw(t, "svcURI")
		typ := rapid.SampledFrom([]string{"LinkedDomains", "DIDCommMessaging"}).Draw(t, "svcType")
		switch rapid.IntRange(0, 3).Draw(t, "endpointKind") {
		case 3:
			// every optional member of a service, with lists of one and of two entries
			list := func(l string, vals ...string) ([]string, []interface{}) {
				n := rapid.IntRange(1, len(vals)).Draw(t, l)
				var w []interface{}
				for _, v := range vals[:n] {
					w = append(w, v)
				}
				return vals[:n], w
			}
			rk, wrk := list("nRouting", "did:example:r#k1", "did:example:r#k2")
			ac, wac := list("nAccept", "didcomm/v2", "didcomm/aip2;env=rfc587")
			rc, wrc := list("nRecipient", "did:example:1#k", "did:example:2#k")
			prio := uint(rapid.IntRange(1, 3).Draw(t, "priority"))
			svcs = append(svcs, docdid.Service{ID: id, Type: typ, ServiceEndpoint: endpoint.NewDIDCommV1Endpoint(uri), Priority: prio, RecipientKeys: rc, RoutingKeys: rk, Accept: ac})
			want = append(want, map[string]interface{}{"id": id, "type": typ, "serviceEndpoint": uri, "priority": float64(prio), "recipientKeys": wrc, "routingKeys": wrk, "accept": wac})
		case 0:
			svcs = append(svcs, docdid.Service{ID: id, Type: typ, ServiceEndpoint: endpoint.NewDIDCommV1Endpoint(uri)})
			want = append(want, map[string]interface{}{"id": id, "type": typ, "serviceEndpoint": uri})
		case 1:
			svcs = append(svcs, docdid.Service{ID: id, Type: typ, ServiceEndpoint: endpoint.NewDIDCommV2Endpoint([]endpoint.DIDCommV2Endpoint{{URI: uri, Accept: []string{"didcomm/v2"}}})})
			want = append(want, map[string]interface{}{"id": id, "type": typ, "serviceEndpoint": []interface{}{map[string]interface{}{"uri": uri, "accept": []interface{}{"didcomm/v2"}}}})
		default:
			prio := uint(rapid.IntRange(1, 3).Draw(t, "priority"))
			svcs = append(svcs, docdid.Service{ID: id, Type: typ, ServiceEndpoint: endpoint.NewDIDCommV1Endpoint(uri), Priority: prio, RecipientKeys: []string{"did:example:1#k"}})
			want = append(want, map[string]interface{}{"id": id, "type": typ, "serviceEndpoint": uri, "priority": float64(prio), "recipientKeys": []interface{}{"did:example:1#k"}})
		}
	}
	// custom properties: a map the caller owns, possibly one map for several services and for several calls; every service
	// comes out with these members next to its own, the map stays what it was
	if len(svcs) > 0 && rapid.Bool().Draw(t, "svcProperties") {
		var props map[string]interface{}
		if len(c08Props) > 0 && rapid.Bool().Draw(t, "propertiesOfEarlierCall") {
			props = c08Props[rapid.IntRange(0, len(c08Props)-1).Draw(t, "earlierProperties")].live
		} else {
			props = map[string]interface{}{"note": "n" + ids[0], "weight": float64(rapid.IntRange(1, 9).Draw(t, "weight"))}
			c08Props = append(c08Props, c08PropSnap{props, refJCS(props)})
		}
		for i := range svcs {
			if i == 0 || rapid.IntRange(0, 2).Draw(t, "sameProperties") > 0 {
				svcs[i].Properties = props
				for k, v := range props {
					want[i].(map[string]interface{})[k] = v
				}
			}
		}
	}
	return svcs, want
}

type c08PropSnap struct {
	live map[string]interface{}
	json string
}

// c08Props: the property maps handed to the client during one lifecycle.
var c08Props []c08PropSnap

const cannedResolution = `{"@context":"https://w3id.org/did-resolution/v1","didDocument":{"@context":["https://www.w3.org/ns/did/v1"],"id":"did:ion:abc"}}`

func TestC08_SidetreeClient(t *testing.T) {
	st := statsFor("C08")
	check(t, "C08", 400, func(t *rapid.T) {
		alg := rapid.SampledFrom([]uint{18, 19}).Draw(t, "alg")
		p := genC08Protocol(t, alg)
		p.NonceSize = 16
		var captured [][]byte
		c := sidetree.New(sidetree.WithSidetreeOperationRequestFnc(func(req []byte, _ sidetree.GetEndpointsFunc) ([]byte, error) {
			captured = append(captured, append([]byte{}, req...))
			return []byte(cannedResolution), nil
		}))
		key := func(l string) *Key { return genKey(t, l) } // the client does not put nonces on operation keys
		signerOf := func(k *Key) *clientSigner {
			return &clientSigner{libSigner: libSignerFor(k, k.Type.Alg(), ""), jwk: libJWKOf(t, k)}
		}
		var steps []lifecycleStep
		overlapSeen, typeChange := false, false

		rec, upd := key("recovery0"), key("update0")
		if rec.Commitment(alg) == upd.Commitment(alg) {
			upd = otherKey(t, rec)
		}
		kids := genUniqueIDs(t, 1, 3, "keyID")
		sids := genUniqueIDs(t, 0, 2, "svcID")
		pks, wantKeys := genClientKeys(t, kids)
		c08Props = nil
		defer func() {
			for _, ps := range c08Props {
				if refJCS(ps.live) != ps.json {
					t.Fatalf("C08 the client changed a service's custom properties map that belongs to the caller\n before %s\n after  %s", ps.json, refJCS(ps.live))
				}
			}
		}()
		svcs, wantSvcs := genClientServices(t, sids)
		opts := []create.Option{create.WithRecoveryPublicKey(rec.Public()), create.WithUpdatePublicKey(upd.Public()), create.WithMultiHashAlgorithm(alg)}
		for i := range pks {
			opts = append(opts, create.WithPublicKey(&pks[i]))
		}
		for i := range svcs {
			opts = append(opts, create.WithService(&svcs[i]))
		}
		doc := map[string]interface{}{"publicKey": wantKeys}
		if len(wantSvcs) > 0 {
			doc["service"] = wantSvcs
		}
		if rapid.Bool().Draw(t, "aka") {
			akas := genURIList(t, 1, 2)
			doc["alsoKnownAs"] = akas
			for _, u := range akas {
				opts = append(opts, create.WithAlsoKnownAs(u.(string)))
			}
		}
		var origin interface{}
		if rapid.Bool().Draw(t, "origin") {
			origin = "https://anchor.example/services/orb"
			opts = append(opts, create.WithAnchorOrigin(origin.(string)))
		}
		// the client refuses what would make an unacceptable request, and sends nothing
		if rapid.IntRange(0, 3).Draw(t, "refusedCreate") == 0 {
			bad := append([]create.Option{}, opts...)
			why := rapid.SampledFrom([]string{"same key for update and recovery", "unsupported hash algorithm", "no recovery key"}).Draw(t, "refusal")
			switch why {
			case "same key for update and recovery":
				bad[1] = create.WithUpdatePublicKey(rec.Public())
			case "unsupported hash algorithm":
				bad[2] = create.WithMultiHashAlgorithm(17)
			default:
				bad = bad[1:]
			}
			if _, err := c.CreateDID(bad...); err == nil || len(captured) != 0 {
				t.Fatalf("C08 CreateDID with %s: err=%v, %d request(s) sent", why, err, len(captured))
			}
			st.Label("client-refusal")
		}
		if _, err := c.CreateDID(opts...); err != nil {
			t.Fatalf("C08 CreateDID refused valid input: %v", err)
		}
		if len(captured) != 1 {
			t.Fatalf("C08 CreateDID sent %d requests", len(captured))
		}
		steps = append(steps, lifecycleStep{typ: "create", req: captured[0], doc: doc, updateC: upd.Commitment(alg), recovC: rec.Commitment(alg), origin: origin})
		var reqVal map[string]interface{}
		_ = json.Unmarshal(captured[0], &reqVal)
		// the DID the caller holds may carry further namespace segments in front of the suffix
		didNS := rapid.SampledFrom([]string{"did:sidetree", "did:sidetree", "did:sidetree:test", "did:ion:a:b"}).Draw(t, "didNamespace")
		did := didNS + ":" + refHash(reqVal["suffixData"], p.MultihashAlgorithms[0])

		cur := deepCopyValue(doc).(map[string]interface{})
		updAlg, recAlg := alg, alg
		migrated := false
		recDone := false
		phases := rapid.IntRange(0, 2).Draw(t, "updatesBefore")
		total := phases + 1 + rapid.IntRange(0, 1).Draw(t, "updatesAfter")
		for i := 0; i < total; i++ {
			n0 := len(captured)
			if i == phases && !recDone {
				recDone = true
				a := stepAlg(t, p)
				nr, nu := key("nextRecovery"), key("nextUpdate")
				if nr.Commitment(a) == rec.Commitment(a) {
					nr = otherKey(t, rec)
				}
				if nu.Commitment(a) == nr.Commitment(a) {
					nu = otherKey(t, nr)
				}
				migrated = migrated || a != recAlg
				if nr.Type != rec.Type {
					typeChange = true
				}
				rpks, rwant := genClientKeys(t, genUniqueIDs(t, 1, 2, "recKeyID"))
				ropts := []recovery.Option{recovery.WithNextRecoveryPublicKey(nr.Public()), recovery.WithNextUpdatePublicKey(nu.Public()),
					recovery.WithSigner(signerOf(rec)), recovery.WithOperationCommitment(rec.Commitment(recAlg)), recovery.WithMultiHashAlgorithm(a)}
				for j := range rpks {
					ropts = append(ropts, recovery.WithPublicKey(&rpks[j]))
				}
				var rorigin interface{}
				if rapid.Bool().Draw(t, "recOrigin") {
					rorigin = "origin2.example"
					ropts = append(ropts, recovery.WithAnchorOrigin("origin2.example"))
				}
				if err := c.RecoverDID(did, ropts...); err != nil {
					t.Fatalf("C08 RecoverDID refused valid input: %v", err)
				}
				ndoc := map[string]interface{}{"publicKey": rwant}
				steps = append(steps, lifecycleStep{typ: "recover", req: captured[n0], doc: ndoc, updateC: nu.Commitment(a), recovC: nr.Commitment(a), origin: rorigin})
				rec, upd, cur = nr, nu, deepCopyValue(ndoc).(map[string]interface{})
				updAlg, recAlg = a, a
				continue
			}
			a := stepAlg(t, p)
			next := key("nextUpdate")
			if next.Commitment(a) == upd.Commitment(a) {
				next = otherKey(t, upd)
			}
			migrated = migrated || a != updAlg
			uopts := []update.Option{update.WithNextUpdatePublicKey(next.Public()), update.WithSigner(signerOf(upd)),
				update.WithOperationCommitment(upd.Commitment(updAlg)), update.WithMultiHashAlgorithm(a)}
			// the client's patch order: remove aka, remove keys, remove services, add aka, add services, add keys
			var vals []interface{}
			rmIDs := genIDsNear(t, idsOf(cur["publicKey"]), 0, 2, "rmKey")
			rmSvc := genIDsNear(t, idsOf(cur["service"]), 0, 1, "rmSvc")
			var rmAka []interface{}
			if rapid.Bool().Draw(t, "rmAka") {
				rmAka = genURIList(t, 1, 1)
			}
			if len(rmAka) > 0 {
				vals = append(vals, map[string]interface{}{"action": "remove-also-known-as", "uris": rmAka})
				for _, u := range rmAka {
					uopts = append(uopts, update.WithRemoveAlsoKnownAs(u.(string)))
				}
			}
			if len(rmIDs) > 0 {
				vals = append(vals, map[string]interface{}{"action": "remove-public-keys", "ids": toIfaceList(rmIDs)})
				for _, id := range rmIDs {
					uopts = append(uopts, update.WithRemovePublicKey(id))
				}
			}
			if len(rmSvc) > 0 {
				vals = append(vals, map[string]interface{}{"action": "remove-services", "ids": toIfaceList(rmSvc)})
				for _, id := range rmSvc {
					uopts = append(uopts, update.WithRemoveService(id))
				}
			}
			if rapid.Bool().Draw(t, "addAka") {
				akas := genURIList(t, 1, 2)
				vals = append(vals, map[string]interface{}{"action": "add-also-known-as", "uris": akas})
				for _, u := range akas {
					uopts = append(uopts, update.WithAddAlsoKnownAs(u.(string)))
				}
			}
			if rapid.Bool().Draw(t, "addSvc") {
				asv, awant := genClientServices(t, genIDsNear(t, idsOf(cur["service"]), 1, 2, "addSvcID"))
				vals = append(vals, map[string]interface{}{"action": "add-services", "services": awant})
				for j := range asv {
					uopts = append(uopts, update.WithAddService(&asv[j]))
				}
			}
			addIDs := genIDsNear(t, append(idsOf(cur["publicKey"]), rmIDs...), 0, 2, "addKeyID")
			if len(addIDs) == 0 && len(vals) == 0 {
				addIDs = []string{"k-new"}
			}
			if len(addIDs) > 0 {
				apk, awant := genClientKeys(t, addIDs)
				vals = append(vals, map[string]interface{}{"action": "add-public-keys", "publicKeys": awant})
				for j := range apk {
					uopts = append(uopts, update.WithAddPublicKey(&apk[j]))
				}
				for _, a := range addIDs {
					for _, r := range rmIDs {
						if a == r {
							overlapSeen = true
						}
					}
				}
			}
			if err := c.UpdateDID(did, uopts...); err != nil {
				t.Fatalf("C08 UpdateDID refused valid input: %v", err)
			}
			ndoc, err := refCompose(cur, vals)
			if err != nil {
				t.Fatalf("harness: %v", err)
			}
			steps = append(steps, lifecycleStep{typ: "update", req: captured[n0], doc: ndoc, updateC: next.Commitment(a), recovC: rec.Commitment(recAlg)})
			upd, cur, updAlg = next, ndoc, a
		}
		n0 := len(captured)
		if err := c.DeactivateDID(did, deactivate.WithSigner(signerOf(rec)), deactivate.WithOperationCommitment(rec.Commitment(recAlg))); err != nil {
			t.Fatalf("C08 DeactivateDID refused valid input: %v", err)
		}
		steps = append(steps, lifecycleStep{typ: "deactivate", req: captured[n0], doc: map[string]interface{}{}})
		verifyLifecycle(t, p, didNS, steps)
		kinds := ""
		for _, s := range steps {
			kinds += s.typ[:1]
		}
		labels := []string{"sidetree-client", "lifecycle-" + kinds, fmt.Sprintf("alg-%d", alg)}
		if migrated {
			labels = append(labels, "algorithm-migration")
		}
		if overlapSeen {
			labels = append(labels, "update-remove+add-same-id")
		}
		if typeChange {
			labels = append(labels, "recover-changes-key-type")
		}
		st.Case(overlapSeen && typeChange, string(steps[0].req)+kinds, labels...)
		st.Sample("sidetree-client", 2, func() interface{} {
			return map[string]interface{}{"lifecycle": kinds, "create": mustJSON(string(steps[0].req))}
		})
	})
}
