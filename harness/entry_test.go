package harness

// Registry of byte-level entry points into the library (shared by C19, the in-flight journal and replay).
// Every entry takes one byte string; structured inputs travel as a JSON envelope.

import (
	"encoding/json"
	"fmt"
	"runtime/debug"
	"sync"

	"github.com/trustbloc/sidetree-go/pkg/api/operation"
	"github.com/trustbloc/sidetree-go/pkg/api/protocol"
	"github.com/trustbloc/sidetree-go/pkg/canonicalizer"
	"github.com/trustbloc/sidetree-go/pkg/commitment"
	"github.com/trustbloc/sidetree-go/pkg/document"
	"github.com/trustbloc/sidetree-go/pkg/hashing"
	"github.com/trustbloc/sidetree-go/pkg/jws"
	"github.com/trustbloc/sidetree-go/pkg/jwsutil"
	"github.com/trustbloc/sidetree-go/pkg/patch"
	longform "github.com/trustbloc/sidetree-go/pkg/vdr/sidetreelongform"
	"github.com/trustbloc/sidetree-go/pkg/vdr/sidetreelongform/dochandler"
	"github.com/trustbloc/sidetree-go/pkg/versions/1_0/doccomposer"
	"github.com/trustbloc/sidetree-go/pkg/versions/1_0/doctransformer/didtransformer"
	"github.com/trustbloc/sidetree-go/pkg/versions/1_0/doctransformer/doctransformer"
	"github.com/trustbloc/sidetree-go/pkg/versions/1_0/docvalidator/didvalidator"
	"github.com/trustbloc/sidetree-go/pkg/versions/1_0/docvalidator/docvalidator"
	"github.com/trustbloc/sidetree-go/pkg/versions/1_0/model"
	"github.com/trustbloc/sidetree-go/pkg/versions/1_0/operationparser/patchvalidator"
)

// callNoPanic runs f and converts a panic into an error carrying the stack.
func callNoPanic(f func()) (err error) {
	defer func() {
		if r := recover(); r != nil {
			err = fmt.Errorf("panic: %v\n%s", r, debug.Stack())
		}
	}()
	f()
	return nil
}

type entryFunc func(in []byte)

var entryRegistry = map[string]entryFunc{}

func entryPoints() map[string]entryFunc { return entryRegistry }

func registerEntry(name string, f entryFunc) { entryRegistry[name] = f }

var (
	entryOnce    sync.Once
	entryStack   *libStack
	entryHandler *dochandler.DocumentHandler
	entryVDR     *longform.VDR
	entryState   *protocol.ResolutionModel // a created state to apply operations to
	entrySuffix  string
)

func entrySetup() {
	entryOnce.Do(func() {
		entryStack = newStack(wideProtocol())
		var err error
		if entryHandler, err = dochandler.New("did:ion"); err != nil {
			panic(err)
		}
		if entryVDR, err = longform.New(); err != nil {
			panic(err)
		}
		keys := pool()[ktEd25519]
		cr := newCreate(18, keys[0], keys[1], []interface{}{
			map[string]interface{}{"action": "add-public-keys", "publicKeys": []interface{}{map[string]interface{}{"id": "k1", "type": tJWK2020, "purposes": []interface{}{pAuth}, "publicKeyJwk": docJWK(pool()[ktP256][0])}}},
			map[string]interface{}{"action": "add-services", "services": []interface{}{map[string]interface{}{"id": "s1", "type": "t", "serviceEndpoint": "https://example.com/a"}}},
			map[string]interface{}{"action": "ietf-json-patch", "patches": []interface{}{map[string]interface{}{"op": "add", "path": "/o", "value": map[string]interface{}{"y": []interface{}{"a", float64(1)}}}}},
		}, nil, "")
		entrySuffix = cr.suffixFor(18)
		entryState, err = entryStack.Applier.Apply(anchoredBytes("create", cr.bytes(), entrySuffix, anchorMeta{Time: 1}), &protocol.ResolutionModel{})
		if err != nil {
			panic(err)
		}
	})
}

// entryKeys are the chain keys of entryState (update key = pool ed[1], recovery key = pool ed[0]).
func entryKeys() chainKeys {
	return chainKeys{Update: pool()[ktEd25519][1], Recovery: pool()[ktEd25519][0]}
}

func init() {
	// {"doc": <document>, "patches": [<patch>...]} -> DocumentComposer.ApplyPatches (+ transformation of the result)
	registerEntry("ApplyPatches", func(in []byte) {
		var x struct {
			Doc     map[string]interface{} `json:"doc"`
			Patches []interface{}          `json:"patches"`
		}
		if json.Unmarshal(in, &x) != nil || x.Doc == nil {
			return
		}
		var ps []interface{}
		for _, p := range x.Patches {
			if _, ok := p.(map[string]interface{}); ok {
				ps = append(ps, p)
			}
		}
		lps, err := libPatches(ps)
		if err != nil {
			return
		}
		res, err := doccomposer.New().ApplyPatches(libDoc(x.Doc), lps)
		if err == nil && res != nil {
			transformAll(res)
		}
	})
	// raw request bytes -> every parser entry point, operation processing, anchored form
	registerEntry("ParseRequest", func(in []byte) {
		entrySetup()
		p := entryStack.Parser
		_, _ = p.Parse("did:ion", in)
		for _, batch := range []bool{false, true} {
			if op, err := p.ParseOperation("did:ion", in, batch); err == nil && op != nil {
				if a, err := model.GetAnchoredOperation(op); err == nil {
					_, _ = entryStack.Applier.Apply(a, entryState)
					_, _ = entryStack.Applier.Apply(a, &protocol.ResolutionModel{})
				}
			}
		}
		_, _ = p.GetRevealValue(in)
		_, _ = p.GetCommitment(in)
		_, _ = entryHandler.ProcessOperation(in)
		_ = docvalidator.New().IsValidPayload(in)
		_ = didvalidator.New().IsValidPayload(in)
	})
	// request bytes -> the parser's own calls only (short: used where many calls have to overlap)
	registerEntry("ParserOnly", func(in []byte) {
		entrySetup()
		p := entryStack.Parser
		_, _ = p.Parse("did:ion", in)
		_, _ = p.ParseOperation("did:ion", in, true)
		_, _ = p.GetRevealValue(in)
		_, _ = p.GetCommitment(in)
	})
	// {"type": t, "request": "<bytes>"} -> Applier.Apply on an existing and on an empty state
	registerEntry("Apply", func(in []byte) {
		entrySetup()
		var x struct {
			Type    string `json:"type"`
			Request string `json:"request"`
		}
		if json.Unmarshal(in, &x) != nil {
			return
		}
		for _, typ := range []string{x.Type, "create", "update", "recover", "deactivate", "other"} {
			a := anchoredBytes(typ, []byte(x.Request), entrySuffix, anchorMeta{Time: 5, Canonical: "c"})
			if res, err := entryStack.Applier.Apply(a, entryState); err == nil && res != nil && res.Doc != nil {
				transformAll(res.Doc)
			}
			if res, err := entryStack.Applier.Apply(a, &protocol.ResolutionModel{}); err == nil && res != nil && res.Doc != nil {
				transformAll(res.Doc)
			}
		}
	})
	// {"suffix": .., "ops": [{"type": .., "request": ..}, ...]} -> the operations folded through the applier, each on the state
	// its predecessors left (a refused operation leaves the state as it was)
	registerEntry("ApplyHistory", func(in []byte) {
		entrySetup()
		var x struct {
			Suffix string `json:"suffix"`
			Ops    []struct {
				Type    string `json:"type"`
				Request string `json:"request"`
			} `json:"ops"`
		}
		if json.Unmarshal(in, &x) != nil {
			return
		}
		state := &protocol.ResolutionModel{}
		for i, o := range x.Ops {
			a := anchoredBytes(o.Type, []byte(o.Request), x.Suffix, anchorMeta{Time: uint64(5 + i), Number: uint64(i), Canonical: "h"})
			if res, err := entryStack.Applier.Apply(a, state); err == nil && res != nil {
				state = res
				if res.Doc != nil {
					transformAll(res.Doc)
				}
			}
		}
	})
	// DID string -> ParseDID, ResolveDocument, VDR.Read
	registerEntry("ResolveDID", func(in []byte) {
		entrySetup()
		did := string(in)
		_, _, _ = entryStack.Parser.ParseDID("did:ion", did)
		_, _, _ = entryStack.Parser.ParseDID("", did)
		_, _ = entryHandler.ResolveDocument(did)
		_, _ = entryVDR.Read(did)
	})
	// {"jws": s, "jwk": <object>} -> ParseJWS, VerifyJWS, VerifySignature, JWK decoding
	registerEntry("JWS", func(in []byte) {
		var x struct {
			JWS string          `json:"jws"`
			JWK json.RawMessage `json:"jwk"`
		}
		if json.Unmarshal(in, &x) != nil {
			return
		}
		_, _ = jwsutil.ParseJWS(x.JWS)
		_ = jwsutil.IsCompactJWS(x.JWS)
		var k jwsutil.JWK
		_ = k.UnmarshalJSON(x.JWK)
		var j jws.JWK
		if json.Unmarshal(x.JWK, &j) == nil {
			_ = j.Validate()
			_, _ = jwsutil.VerifyJWS(x.JWS, &j)
			_, _ = jwsutil.GetED25519PublicKey(&j)
			_ = jwsutil.VerifySignature(&j, []byte(x.JWS), []byte("msg"))
			_, _ = commitment.GetCommitment(&j, 18)
			_, _ = commitment.GetRevealValue(&j, 19)
		}
	})
	// arbitrary bytes -> canonicalizer, hashing, patch / document decoding, validators
	registerEntry("Bytes", func(in []byte) {
		_, _ = canonicalizer.MarshalCanonical(in)
		_, _ = hashing.CalculateModelMultihash(in, 18)
		_ = hashing.IsValidModelMultihash(in, string(in))
		_, _ = hashing.GetMultihashCode(string(in))
		_ = hashing.IsSupportedMultihash(string(in))
		_, _ = commitment.GetCommitmentFromRevealValue(string(in))
		if p, err := patch.FromBytes(in); err == nil {
			validateAndApply(p)
		}
		s := string(in)
		_, _ = patch.PatchesFromDocument(s)
		_, _ = patch.NewReplacePatch(s)
		_, _ = patch.NewJSONPatch(s)
		_, _ = patch.NewAddPublicKeysPatch(s)
		_, _ = patch.NewRemovePublicKeysPatch(s)
		_, _ = patch.NewAddServiceEndpointsPatch(s)
		_, _ = patch.NewRemoveServiceEndpointsPatch(s)
		_, _ = patch.NewAddAlsoKnownAs(s)
		_, _ = patch.NewRemoveAlsoKnownAs(s)
		_ = docvalidator.New().IsValidOriginalDocument(in)
		_ = didvalidator.New().IsValidOriginalDocument(in)
		_ = docvalidator.New().IsValidPayload(in)
		_ = didvalidator.New().IsValidPayload(in)
		var k jwsutil.JWK
		_ = k.UnmarshalJSON(in)
		if d, err := document.FromBytes(in); err == nil && d != nil {
			transformAll(d)
		}
	})
	// patch bytes -> FromBytes, Validate, ApplyPatches (validated patches only reach the composer in the protocol flow; the
	// composer is nevertheless exercised with every parseable patch)
	registerEntry("Patch", func(in []byte) {
		if p, err := patch.FromBytes(in); err == nil {
			validateAndApply(p)
		}
	})
}

var sampleDocForPatches = map[string]interface{}{
	"publicKey":   []interface{}{map[string]interface{}{"id": "k1", "type": tJWK2020, "purposes": []interface{}{pAuth}, "publicKeyJwk": map[string]interface{}{"kty": "EC", "crv": "P-256", "x": "bxuOPK3rHDQKmb7hZce2qXdV_aAXuWh2ig0WidPT9AQ", "y": "OiUNRmGSZ053tI71qD3npJMUabZ4M9SNRnKWSwtPN7w"}}},
	"service":     []interface{}{map[string]interface{}{"id": "s1", "type": "t", "serviceEndpoint": "https://example.com/a"}},
	"alsoKnownAs": []interface{}{"https://example.com/a"},
	"o":           map[string]interface{}{"y": []interface{}{"a", float64(1)}},
	"arr":         []interface{}{"e0", float64(1), map[string]interface{}{"in": "arr"}},
}

func validateAndApply(p patch.Patch) {
	verr := patchvalidator.Validate(p)
	for _, d := range []map[string]interface{}{sampleDocForPatches, {}} {
		res, err := doccomposer.New().ApplyPatches(libDoc(d), []patch.Patch{p})
		if err == nil && res != nil && verr == nil {
			transformAll(res)
		}
	}
	_, _ = p.Bytes()
}

// transformAll runs both transformers over a document assembled by the composer.
func transformAll(doc document.Document) {
	rm := func() *protocol.ResolutionModel {
		c, err := jsonRoundTrip(doc)
		if err != nil {
			return nil
		}
		m, ok := c.(map[string]interface{})
		if !ok {
			return nil
		}
		return &protocol.ResolutionModel{Doc: m, RecoveryCommitment: "r", UpdateCommitment: "u", VersionID: "v",
			PublishedOperations: []*operation.AnchoredOperation{{Type: "create", CanonicalReference: "a"}}}
	}
	for _, base := range []bool{true, false} {
		if r := rm(); r != nil {
			info := protocol.TransformationInfo{"id": "did:ion:abc", "published": true}
			_, _ = didtransformer.New(didtransformer.WithBase(base), didtransformer.WithIncludePublishedOperations(true)).TransformDocument(r, info)
		}
	}
	if r := rm(); r != nil {
		_, _ = doctransformer.New().TransformDocument(r, protocol.TransformationInfo{"id": "did:ion:abc", "published": false})
	}
}
