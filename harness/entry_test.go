package harness

// Registry of byte-level entry points into the library (shared by C19, the in-flight journal and replay).

import (
	"encoding/json"
	"fmt"
	"runtime/debug"

	"github.com/trustbloc/sidetree-go/pkg/versions/1_0/doccomposer"
)

// callNoPanic runs f and converts a panic into an error carrying the stack.
func callNoPanic(f func()) (err error) {
	defer func() {
		if r := recover(); r != nil {
			err = fmt.Errorf("panic: %v\n%s", r, debug.Stack())
		}
	}()
	f()
	return nil
}

type entryFunc func(in []byte)

var entryRegistry = map[string]entryFunc{}

func entryPoints() map[string]entryFunc { return entryRegistry }

func registerEntry(name string, f entryFunc) { entryRegistry[name] = f }

func init() {
	// {"doc": <document>, "patches": [<patch>...]} -> DocumentComposer.ApplyPatches
	registerEntry("ApplyPatches", func(in []byte) {
		var x struct {
			Doc     map[string]interface{} `json:"doc"`
			Patches []interface{}          `json:"patches"`
		}
		if json.Unmarshal(in, &x) != nil || x.Doc == nil {
			return
		}
		var ps []interface{}
		for _, p := range x.Patches {
			if _, ok := p.(map[string]interface{}); ok {
				ps = append(ps, p)
			}
		}
		lps, err := libPatches(ps)
		if err != nil {
			return
		}
		_, _ = doccomposer.New().ApplyPatches(libDoc(x.Doc), lps)
	})
}
