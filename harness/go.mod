module verif/harness

go 1.23

toolchain go1.23.5

require (
	github.com/anishathalye/porcupine v1.3.0
	github.com/trustbloc/sidetree-go v0.0.0
	pgregory.net/rapid v1.3.0
)

replace github.com/trustbloc/sidetree-go => /repo
