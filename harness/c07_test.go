package harness

// C07 — the parser accepts exactly what the protocol allows and reports it faithfully.
// Oracle: verdict by construction — a valid request under a configuration with every limit exactly tight is accepted and
// reported faithfully; the same request with exactly one labelled rule violation (in the request or in the configuration)
// is refused.

import (
	"bytes"
	"fmt"
	"strings"
	"sync"
	"testing"

	"github.com/trustbloc/sidetree-go/pkg/api/protocol"
	"pgregory.net/rapid"
)

type c07Case struct {
	typ   string
	b     *opBuild
	alg   uint
	input []byte
	p     protocol.Protocol
}

func usedActions(b *opBuild) []string {
	seen := map[string]bool{}
	var out []string
	if b.Delta == nil {
		return nil
	}
	for _, p := range b.Delta["patches"].([]interface{}) {
		a := p.(map[string]interface{})["action"].(string)
		if !seen[a] {
			seen[a] = true
			out = append(out, a)
		}
	}
	return out
}

func without(list []string, drop ...string) []string {
	var out []string
	for _, x := range list {
		keep := true
		for _, d := range drop {
			if d == x {
				keep = false
			}
		}
		if keep {
			out = append(out, x)
		}
	}
	return out
}

func someOf(t *rapid.T, list []string, label string) []string {
	var out []string
	for _, x := range list {
		if rapid.Bool().Draw(t, label) {
			out = append(out, x)
		}
	}
	return out
}

func shuffled(t *rapid.T, l []string, label string) []string {
	if len(l) < 2 {
		return l
	}
	return rapid.Permutation(l).Draw(t, label)
}

// tightProtocol builds a configuration under which the request is valid with every limit exactly at its boundary.
func tightProtocol(t *rapid.T, b *opBuild, input []byte, alg uint) protocol.Protocol {
	p := wideProtocol()
	other := uint(37) - alg
	switch rapid.IntRange(0, 2).Draw(t, "algList") {
	case 0:
		p.MultihashAlgorithms = []uint{alg}
	case 1:
		p.MultihashAlgorithms = []uint{alg, other}
	default:
		p.MultihashAlgorithms = []uint{other, alg}
	}
	p.MaxOperationSize = uint(len(input))
	hashLen := len(refHash(map[string]interface{}{}, alg))
	p.MaxOperationHashLength = uint(hashLen)
	if b.Delta != nil {
		p.MaxDeltaSize = uint(len(refJCS(b.Delta)))
	} else {
		p.MaxDeltaSize = uint(rapid.IntRange(0, 10).Draw(t, "anyDeltaLimit"))
	}
	p.Patches = shuffled(t, append(usedActions(b), someOf(t, without(allActions, usedActions(b)...), "extraAction")...), "actionOrder")
	if b.SignKey != nil {
		a, c := b.SignKey.Type.Alg(), b.SignKey.Type.Crv()
		p.SignatureAlgorithms = shuffled(t, append([]string{a}, someOf(t, without(allSigAlgs, a), "extraSigAlg")...), "sigAlgOrder")
		p.KeyAlgorithms = shuffled(t, append([]string{c}, someOf(t, without(allCurves, c), "extraCurve")...), "curveOrder")
	} else {
		p.SignatureAlgorithms = someOf(t, allSigAlgs, "anySigAlg")
		p.KeyAlgorithms = someOf(t, allCurves, "anyCurve")
	}
	p.MaxOperationTimeDelta = uint64(rapid.SampledFrom([]int{0, 1, 600}).Draw(t, "timeDelta"))
	return p
}

func genC07Valid(t *rapid.T, typ string, st *propStats) (*opBuild, uint, int) {
	alg := rapid.SampledFrom([]uint{18, 19}).Draw(t, "hashAlg")
	nonceSize := rapid.SampledFrom([]int{16, 8, 1, 32}).Draw(t, "nonceSize")
	pp := wideProtocol()
	pp.NonceSize = uint64(nonceSize)
	key := func(l string) *Key { return genNoncedKey(t, pp, l) }
	var b *opBuild
	var patches []interface{}
	if typ != "deactivate" {
		patches, _ = genOpPatches(t, map[string]interface{}{}, true, st)
	}
	from, until := clampWindow(genWindow(t, 5))
	switch typ {
	case "create":
		rec, upd := key("recovery"), key("update")
		if rec.Commitment(alg) == upd.Commitment(alg) {
			upd = otherKey(t, rec)
		}
		b = newCreate(alg, rec, upd, patches, genOrigin(t), rapid.SampledFrom([]string{"", "t1"}).Draw(t, "suffixType"))
	case "update":
		s := key("signer")
		n := key("next")
		if n.Commitment(alg) == s.Commitment(alg) {
			n = otherKey(t, s)
		}
		b = newUpdate(alg, refHash(map[string]interface{}{"s": "x"}, alg), s, n, patches, from, until)
	case "recover":
		s := key("signer")
		nr, nu := key("nextRecovery"), key("nextUpdate")
		if nr.Commitment(alg) == s.Commitment(alg) {
			nr = otherKey(t, s)
		}
		if nu.Commitment(alg) == nr.Commitment(alg) {
			nu = otherKey(t, nr)
		}
		b = newRecover(alg, refHash(map[string]interface{}{"s": "x"}, alg), s, nr, nu, patches, genOrigin(t), from, until)
	default:
		b = newDeactivate(alg, refHash(map[string]interface{}{"s": "x"}, alg), key("signer"), from, until)
	}
	maybeKid(t, b)
	if typ != "create" && rapid.IntRange(0, 3).Draw(t, "headerSpelled") == 0 {
		// the protected header is JSON text: member order and white space are free (signed over the text that is transmitted)
		hs := spell(t, b.Header, 2)
		pl := []byte(refJCS(b.Signed))
		b.JWS = compactJWS(hs, pl, b.SignKey.Sign([]byte(b64([]byte(hs))+"."+b64(pl)), 0))
		b.assemble()
	}
	return b, alg, nonceSize
}

func hashFields(typ string) []string {
	switch typ {
	case "create":
		return []string{"suffixData.deltaHash", "suffixData.recoveryCommitment", "delta.updateCommitment"}
	case "update":
		return []string{"revealValue", "signed.deltaHash", "delta.updateCommitment"}
	case "recover":
		return []string{"revealValue", "signed.deltaHash", "signed.recoveryCommitment", "delta.updateCommitment"}
	}
	return []string{"revealValue"}
}

// setHashField overwrites one hash of the request, keeping everything that depends on it consistent.
func setHashField(b *opBuild, field, value string, alg uint) {
	switch field {
	case "revealValue":
		b.Reveal = value
	case "suffixData.deltaHash":
		b.SuffixData["deltaHash"] = value
	case "suffixData.recoveryCommitment":
		b.SuffixData["recoveryCommitment"] = value
	case "signed.deltaHash":
		b.Signed["deltaHash"] = value
		b.sign()
	case "signed.recoveryCommitment":
		b.Signed["recoveryCommitment"] = value
		b.sign()
	case "delta.updateCommitment":
		b.Delta["updateCommitment"] = value
		if b.Type == "create" {
			b.SuffixData["deltaHash"] = refHash(b.Delta, alg)
		} else {
			b.Signed["deltaHash"] = refHash(b.Delta, alg)
			b.sign()
		}
	}
	b.assemble()
}

func getHashField(b *opBuild, field string) string {
	switch field {
	case "revealValue":
		return b.Reveal
	case "suffixData.deltaHash":
		return b.SuffixData["deltaHash"].(string)
	case "suffixData.recoveryCommitment":
		return b.SuffixData["recoveryCommitment"].(string)
	case "signed.deltaHash":
		return b.Signed["deltaHash"].(string)
	case "signed.recoveryCommitment":
		return b.Signed["recoveryCommitment"].(string)
	}
	return b.Delta["updateCommitment"].(string)
}

func c07Labels(typ string, b *opBuild) []string {
	l := []string{"cfg-op-size-minus-1", "cfg-hash-length-minus-1", "cfg-hash-alg-not-listed", "req-type-unknown", "req-type-missing", "req-hash-wrong-alg", "req-hash-too-long", "req-hash-malformed"}
	if typ != "deactivate" {
		l = append(l, "cfg-delta-size-minus-1", "cfg-patch-action-disabled", "cfg-patches-empty", "req-delta-missing", "req-delta-empty-patches", "req-delta-invalid-patch", "req-delta-oversize-by-one")
	}
	if typ != "create" {
		l = append(l, "cfg-sig-alg-not-allowed", "cfg-key-curve-not-allowed", "req-alg-missing", "req-alg-empty", "req-extra-header", "req-key-missing-member",
			"req-reveal-other-key", "req-reveal-respelled", "req-reveal-shortened", "req-reveal-edited", "req-header-not-object", "req-alg-not-string", "req-header-duplicate-member", "req-missing-did-suffix", "req-missing-signed-data", "req-nonce-undecodable", "req-key-rsa", "req-key-unknown-kty")
		if b.SignKey.Nonce != "" {
			l = append(l, "cfg-nonce-size-off-by-one")
		}
	}
	switch typ {
	case "create":
		l = append(l, "req-update-equals-recovery-commitment", "req-missing-suffix-data")
	case "update":
		l = append(l, "req-next-commitment-is-current-key")
	case "recover":
		l = append(l, "req-next-commitment-is-current-key", "req-update-equals-recovery-commitment")
	case "deactivate":
		l = append(l, "req-signed-suffix-mismatch", "req-signed-suffix-edited")
	}
	return l
}

func TestC07_ParserAcceptsExactly(t *testing.T) {
	st := statsFor("C07")
	check(t, "C07", 2500, func(t *rapid.T) {
		typ := rapid.SampledFrom([]string{"create", "update", "recover", "deactivate"}).Draw(t, "opType")
		b, alg, nonceSize := genC07Valid(t, typ, st)
		ns := rapid.SampledFrom([]string{"did:sidetree", "did:ion", "ns"}).Draw(t, "namespace")
		input := []byte(spell(t, b.Req, rapid.IntRange(0, 1).Draw(t, "style")))
		p := tightProtocol(t, b, input, alg)
		p.NonceSize = uint64(nonceSize)
		stack := newStack(p)
		op, err := stack.Parser.Parse(ns, input)
		if err != nil {
			t.Fatalf("C07 valid %s refused under a configuration it satisfies exactly: %v\n cfg=%+v\n req=%s", typ, err, p, input)
		}
		wantSuffix := b.Suffix
		var wantOrigin interface{}
		switch typ {
		case "create":
			wantSuffix = b.suffixFor(p.MultihashAlgorithms[0])
			wantOrigin = b.Origin
		case "recover":
			wantOrigin = b.Origin
		}
		if string(op.Type) != typ || op.UniqueSuffix != wantSuffix || op.ID != ns+":"+wantSuffix {
			t.Fatalf("C07 accepted %s reported as type=%q suffix=%q id=%q, want %q %q %q", typ, op.Type, op.UniqueSuffix, op.ID, typ, wantSuffix, ns+":"+wantSuffix)
		}
		if !bytes.Equal(op.OperationRequest, input) {
			t.Fatalf("C07 returned operation does not carry the original bytes")
		}
		if originCanon(op.AnchorOrigin) != originCanon(wantOrigin) {
			t.Fatalf("C07 accepted %s carries anchor origin %s, request says %s\n req=%s", typ, originCanon(op.AnchorOrigin), originCanon(wantOrigin), input)
		}
		st.Case(false, "", "valid-"+typ)

		// exactly one rule violation
		label := rapid.SampledFrom(c07Labels(typ, b)).Draw(t, "violation")
		m := b.clone()
		q := p
		raw := []byte(nil)
		detail := ""
		switch label {
		case "cfg-op-size-minus-1":
			q.MaxOperationSize--
		case "cfg-hash-length-minus-1":
			q.MaxOperationHashLength--
		case "cfg-hash-alg-not-listed":
			q.MultihashAlgorithms = []uint{37 - alg}
		case "cfg-delta-size-minus-1":
			q.MaxDeltaSize--
		case "cfg-patch-action-disabled":
			drop := rapid.SampledFrom(usedActions(b)).Draw(t, "dropAction")
			q.Patches = without(q.Patches, drop)
			detail = drop
		case "cfg-patches-empty":
			q.Patches = nil
			if rapid.Bool().Draw(t, "emptyNotNil") {
				q.Patches = []string{}
			}
		case "cfg-sig-alg-not-allowed":
			q.SignatureAlgorithms = without(allSigAlgs, b.SignKey.Type.Alg())
		case "cfg-key-curve-not-allowed":
			q.KeyAlgorithms = without(allCurves, b.SignKey.Type.Crv())
		case "cfg-nonce-size-off-by-one":
			q.NonceSize = uint64(nonceSize + rapid.SampledFrom([]int{-1, 1}).Draw(t, "nonceOff"))
		case "req-type-unknown":
			m.Req["type"] = rapid.SampledFrom([]string{"Create", "delete", "", "updat", "recover "}).Draw(t, "badType")
		case "req-type-missing":
			delete(m.Req, "type")
		case "req-hash-wrong-alg":
			f := rapid.SampledFrom(hashFields(typ)).Draw(t, "hashField")
			detail = f
			q.MultihashAlgorithms = []uint{alg}
			q.MaxOperationHashLength = 100
			old := getHashField(m, f)
			// the same digest input hashed with the algorithm that is not configured
			var nv string
			switch f {
			case "revealValue":
				nv = m.SignKey.Reveal(37 - alg)
			case "suffixData.deltaHash", "signed.deltaHash":
				nv = refHash(m.Delta, 37-alg)
			case "suffixData.recoveryCommitment", "signed.recoveryCommitment":
				nv = m.NextRecov.Commitment(37 - alg)
			default:
				nv = m.NextUpdate.Commitment(37 - alg)
			}
			if nv == old {
				t.Fatalf("harness: hash unchanged")
			}
			setHashField(m, f, nv, alg)
		case "req-hash-too-long":
			f := rapid.SampledFrom(hashFields(typ)).Draw(t, "hashField")
			detail = f
			// a well-formed multihash of the configured algorithm that is one character longer than the limit allows:
			// achieved by lowering the limit by one below this field's length while all other hashes stay valid is impossible
			// (all hashes of one algorithm have one length), so lengthen this one: digest with an extra byte and matching length field
			raw2 := refMultihashBytes(alg, append(refDigest(alg, []byte(f)), 0))
			setHashField(m, f, b64(raw2), alg)
		case "req-hash-malformed":
			// starts with the configured code but is not a well-formed multihash
			f := rapid.SampledFrom(hashFields(typ)).Draw(t, "hashField")
			detail = f
			rawH := refMultihashBytes(alg, refDigest(alg, []byte(f)))
			var bad string
			switch rapid.IntRange(0, 4).Draw(t, "malformedHash") {
			case 0:
				bad = b64(rawH[:len(rawH)-rapid.IntRange(1, len(rawH)-2).Draw(t, "cut")])
			case 1:
				bad = b64(rawH[:1])
			case 2:
				bad = b64(rawH[:2])
			case 3:
				r2 := append([]byte{}, rawH...)
				r2[1]--
				bad = b64(r2)
			default:
				bad = b64(rawH) + "="
			}
			setHashField(m, f, bad, alg)
		case "req-key-rsa":
			// a complete RSA JWK as signing key: no curve, so it can never be in the allowed key curves
			rsa := map[string]interface{}{"kty": "RSA", "crv": "", "x": "", "y": "", "n": b64(make([]byte, 256)), "e": "AQAB"}
			m.Signed[keyMember(typ)] = rsa
			m.Reveal = refHash(rsa, alg)
			m.sign()
			m.assemble()
			q.KeyAlgorithms = allCurves
		case "req-key-unknown-kty":
			jwk := m.Signed[keyMember(typ)].(map[string]interface{})
			jwk["crv"] = rapid.SampledFrom([]string{"P-224", "X25519", "p-256", "Ed448", "secp256r1"}).Draw(t, "otherCrv")
			m.Reveal = refHash(jwk, alg)
			m.sign()
			m.assemble()
			q.KeyAlgorithms = allCurves
		case "req-delta-missing":
			m.Delta = nil
			m.assemble()
		case "req-delta-empty-patches":
			m.Delta["patches"] = []interface{}{}
			rehashDelta(m, alg)
		case "req-delta-invalid-patch":
			ps := m.Delta["patches"].([]interface{})
			pos := rapid.IntRange(0, len(ps)).Draw(t, "badPatchPos")
			badID := rapid.SampledFrom(badIDs).Draw(t, "invalidID")
			bad := rapid.SampledFrom([]interface{}{
				map[string]interface{}{"action": "add-public-keys", "publicKeys": []interface{}{map[string]interface{}{"id": badID, "type": tJWK2020, "publicKeyJwk": docJWK(pool()[ktP256][0])}}},
				map[string]interface{}{"action": "remove-public-keys", "ids": []interface{}{"ok", badID}},
				map[string]interface{}{"action": "remove-services", "ids": []interface{}{badID}},
				map[string]interface{}{"action": "add-services", "services": []interface{}{map[string]interface{}{"id": badID, "type": "t", "serviceEndpoint": "https://x.example"}}},
				map[string]interface{}{"action": "replace", "document": map[string]interface{}{"publicKeys": []interface{}{map[string]interface{}{"id": badID, "type": tJWK2020, "publicKeyJwk": docJWK(pool()[ktP256][0])}}}},
				map[string]interface{}{"action": "remove-public-keys", "ids": []interface{}{}},
				map[string]interface{}{"action": "add-public-keys", "publicKeys": []interface{}{map[string]interface{}{"id": "k", "type": tJWK2020}}},
				map[string]interface{}{"action": "add-services", "services": []interface{}{map[string]interface{}{"id": "s s", "type": "t", "serviceEndpoint": "https://x.example"}}},
				map[string]interface{}{"action": "add-also-known-as", "uris": []interface{}{"::bad"}},
			}).Draw(t, "badPatch")
			l := append([]interface{}{}, ps[:pos]...)
			l = append(l, bad)
			m.Delta["patches"] = append(l, ps[pos:]...)
			rehashDelta(m, alg)
			q.Patches = allActions
			q.MaxDeltaSize = 100000
			q.MaxOperationSize = 400000
		case "req-delta-oversize-by-one":
			// one more byte of valid content in the delta, limits unchanged
			m.Delta["patches"] = append(append([]interface{}{}, m.Delta["patches"].([]interface{})...),
				map[string]interface{}{"action": "add-also-known-as", "uris": []interface{}{"https://pad.example/"}})
			rehashDelta(m, alg)
			q.Patches = allActions
			q.MaxOperationSize = 400000
			pad := len(refJCS(m.Delta)) - int(q.MaxDeltaSize)
			if pad <= 0 {
				t.Fatalf("harness: delta did not grow")
			}
			q.MaxDeltaSize = uint(len(refJCS(m.Delta)) - 1)
		case "req-alg-missing":
			delete(m.Header, "alg")
			m.Header["kid"] = "k1"
			m.sign()
			m.assemble()
		case "req-alg-empty":
			m.Header["alg"] = ""
			m.sign()
			m.assemble()
		case "req-extra-header":
			m.Header[rapid.SampledFrom([]string{"typ", "cty", "crit", "b64", "jku", "x5c"}).Draw(t, "extraHeader")] = "JWT"
			m.sign()
			m.assemble()
		case "req-key-missing-member":
			jwk := m.Signed[keyMember(typ)].(map[string]interface{})
			delete(jwk, rapid.SampledFrom([]string{"kty", "crv", "x"}).Draw(t, "jwkMember"))
			m.sign()
			m.assemble()
		case "req-nonce-undecodable":
			resignWithKey(m, m.SignKey.WithNonce(rapid.SampledFrom([]string{"!!", "a b", "=="}).Draw(t, "badNonce")))
		case "req-reveal-other-key":
			if rapid.Bool().Draw(t, "signedCarriesRightReveal") {
				// a reveal value inside the signed data is not the request's reveal value
				m.Signed["revealValue"] = m.Reveal
				m.sign()
				detail = "signed data carries the matching reveal value"
			}
			m.Reveal = otherKey(t, m.SignKey).Reveal(alg)
			m.assemble()
		case "req-reveal-respelled", "req-reveal-shortened", "req-header-duplicate-member", "req-reveal-edited", "req-header-not-object", "req-alg-not-string":
			m.assemble()
			tamperSigned(t, m, strings.TrimPrefix(label, "req-"), q)
		case "req-missing-did-suffix":
			m.assemble()
			delete(m.Req, "didSuffix")
		case "req-missing-signed-data":
			m.assemble()
			delete(m.Req, "signedData")
		case "req-missing-suffix-data":
			m.assemble()
			delete(m.Req, "suffixData")
		case "req-update-equals-recovery-commitment":
			setHashField(m, "delta.updateCommitment", m.NextRecov.Commitment(alg), alg)
		case "req-next-commitment-is-current-key":
			// the current key's commitment, under the request's algorithm or (both configured) under the other one
			calg := alg
			if rapid.Bool().Draw(t, "commitmentOtherAlg") {
				calg = 37 - alg
				q.MultihashAlgorithms = []uint{alg, calg}
				q.MaxOperationHashLength = 100
				detail = "commitment-under-other-algorithm"
			}
			if typ == "update" {
				setHashField(m, "delta.updateCommitment", m.SignKey.Commitment(calg), alg)
			} else {
				setHashField(m, "signed.recoveryCommitment", m.SignKey.Commitment(calg), alg)
			}
		case "req-signed-suffix-edited":
			m.Signed["didSuffix"], detail = editString(t, m.Suffix)
			m.sign()
			m.assemble()
		case "req-signed-suffix-mismatch":
			m.Signed["didSuffix"] = refHash(map[string]interface{}{"s": "other"}, alg)
			m.sign()
			m.assemble()
		default:
			t.Fatalf("harness: label %s", label)
		}
		if raw == nil {
			raw = m.bytes()
		}
		// request-side violations: keep the size limits out of the way (exactly one rule is to be violated)
		if strings.HasPrefix(label, "req-") && label != "req-delta-oversize-by-one" {
			q.MaxOperationSize = 400000
			if label != "req-hash-too-long" {
				if m.Delta != nil {
					q.MaxDeltaSize = uint(len(refJCS(m.Delta)))
				}
			} else {
				q.MaxDeltaSize = 100000
			}
		} else if strings.HasPrefix(label, "cfg-") {
			raw = input
		}
		if label == "req-hash-too-long" {
			// the limit sits exactly at the length of the regular hashes: the lengthened one exceeds it by construction
			if len(getHashField(m, detail)) <= int(q.MaxOperationHashLength) {
				t.Fatalf("harness: lengthened hash not longer than the limit")
			}
		}
		judge := newStack(q)
		if rapid.Bool().Draw(t, "parserInUse") {
			// the verdict on a request does not depend on what the parser has seen before: the untouched request (and, for good
			// measure, its batch-mode parse) goes through the same parser first, a few times
			for i, n := 0, rapid.IntRange(1, 4).Draw(t, "requestsBefore"); i < n; i++ {
				_, _ = judge.Parser.Parse(ns, input)
				_, _ = judge.Parser.ParseOperation(ns, input, true)
			}
		}
		if got, perr := judge.Parser.Parse(ns, raw); perr == nil {
			t.Fatalf("C07 %s request violating %q (%s) accepted as %s\n cfg=%+v\n req=%s", typ, label, detail, got.ID, q, raw)
		}
		st.Case(true, typ+"|"+label+"|"+detail+"|"+string(raw)+fmt.Sprint(q.MaxOperationSize, q.MaxDeltaSize, q.MultihashAlgorithms), "cell-"+typ+"/"+label, "violation-"+label)
		st.Sample(typ+"/"+label, 1, func() interface{} {
			return map[string]interface{}{"type": typ, "violation": label, "detail": detail, "request": clip(string(raw), 1200),
				"limits": map[string]interface{}{"maxOperationSize": q.MaxOperationSize, "maxDeltaSize": q.MaxDeltaSize, "maxHash": q.MaxOperationHashLength, "algs": q.MultihashAlgorithms, "patches": q.Patches, "sigAlgs": q.SignatureAlgorithms, "curves": q.KeyAlgorithms, "nonce": q.NonceSize}}
		})
	})
}

func rehashDelta(m *opBuild, alg uint) {
	h := refHash(m.Delta, alg)
	if m.Type == "create" {
		m.SuffixData["deltaHash"] = h
	} else {
		m.Signed["deltaHash"] = h
		m.sign()
	}
	m.assemble()
}

// TestC07_Concurrent: a parser accepts what the protocol allows also when it is brand new and several goroutines hand it
// their first requests at the same moment (anything a parser builds lazily is then built under contention).
func TestC07_Concurrent(t *testing.T) {
	st := statsFor("C07")
	check(t, "C07", 40, func(t *rapid.T) {
		n := rapid.IntRange(2, 8).Draw(t, "goroutines")
		rounds := rapid.IntRange(1, 10).Draw(t, "rounds")
		type job struct {
			typ string
			raw []byte
		}
		var jobs []job
		p := wideProtocol()
		for len(jobs) < n {
			typ := rapid.SampledFrom([]string{"create", "update", "recover", "deactivate"}).Draw(t, "opType")
			b, _, nonceSize := genC07Valid(t, typ, st)
			if nonceSize != int(p.NonceSize) && b.SignKey != nil && b.SignKey.Nonce != "" {
				continue // one shared configuration: keep the requests that fit its nonce size
			}
			if typ == "create" && (b.NextRecov.Nonce != "" || b.NextUpdate.Nonce != "") && nonceSize != int(p.NonceSize) {
				continue
			}
			jobs = append(jobs, job{typ, b.bytes()})
		}
		// a new parser for every round: each one meets all goroutines at its very first use
		for r := 0; r < rounds*10; r++ {
			fresh := newStack(p)
			errs := make(chan string, n)
			var wg sync.WaitGroup
			start := make(chan struct{})
			for i := range jobs {
				wg.Add(1)
				go func(j job) {
					defer wg.Done()
					<-start
					op, err := fresh.Parser.Parse("did:sidetree", j.raw)
					if err != nil {
						errs <- fmt.Sprintf("valid %s refused: %v\n%s", j.typ, err, clip(string(j.raw), 800))
						return
					}
					if string(op.Type) != j.typ || !bytes.Equal(op.OperationRequest, j.raw) {
						errs <- fmt.Sprintf("accepted %s reported as %s / other bytes", j.typ, op.Type)
					}
				}(jobs[i])
			}
			close(start)
			awaitWorkers(t, &wg, "C07 concurrent first use of a parser")
			close(errs)
			for e := range errs {
				t.Fatalf("C07 (a new parser used by %d goroutines at once, round %d) %s", n, r, e)
			}
		}
		st.Case(n >= 3, fmt.Sprint("concurrent|", n, rounds, string(jobs[0].raw)), "concurrent", fmt.Sprintf("goroutines-%d", n))
	})
}
