package harness

// C11 — a validated ietf-json-patch can never alter public keys or services.
// Oracle: invariant — Validate(p) == nil and ApplyPatches succeeds  =>  publicKey and service members unchanged.

import (
	"fmt"
	"strings"
	"sync"
	"testing"

	"github.com/trustbloc/sidetree-go/pkg/document"
	"github.com/trustbloc/sidetree-go/pkg/patch"
	"github.com/trustbloc/sidetree-go/pkg/versions/1_0/doccomposer"
	"github.com/trustbloc/sidetree-go/pkg/versions/1_0/operationparser/patchvalidator"
	"pgregory.net/rapid"
)

var protectedPointers = []string{"/publicKey", "/service", "/publicKey/0", "/service/0", "/publicKey/-", "/service/-", "/publicKey/0/id",
	"/publicKey/0/publicKeyJwk/x", "/service/0/serviceEndpoint", "/publicKey/1", "/publicKey/00", "/service/0/type", "", "/",
	"/publicKeyX", "/service2", "/publi", "/servic", "/Service", "/PublicKey", "/publicKey~0", "/~1publicKey", "/service~1x", "publicKey", "/alsoKnownAs", "/alsoKnownAs/0",
	"x/publicKey", "#/publicKey/0", "x/service", " /publicKey", "publicKey/publicKey/0", "~/service/0", "x/publicKey/0/id", "#/service/-", "//publicKey", "/./publicKey"}

var pointerPrefixes = []string{"x", "#", " ", "~", "~1", "~0", "~1x", "~01", "~10", "~1~0x", "%2F", "\\", "..", "~1publicKey", "\u2215", "\uff0f"}

var hostileTokens = []string{"note\n", "\n", "a\tb", "é", "\u2028x", "x\u0000", "x\r\n", " ", "~0", "~1", "%2F", "..", "-", "00", "1e0", "+1", "-1", "\ufeffid"}

func genC11Pointer(t *rapid.T, doc interface{}, label string) string {
	switch rapid.IntRange(0, 6).Draw(t, label+"-protected") {
	case 0, 1:
		return rapid.SampledFrom(protectedPointers).Draw(t, label+"-p")
	case 3:
		// text without a '/' in front of a pointer into a protected member: the JSON patch library ignores everything before
		// the first '/', whatever it spells (escape sequences included) - not a JSON pointer, and if let through it addresses keys
		prefix := rapid.SampledFrom(pointerPrefixes).Draw(t, label+"-prefix")
		if rapid.IntRange(0, 3).Draw(t, label+"-randPrefix") == 0 {
			prefix = strings.ReplaceAll(genString(t, 3), "/", "~1")
		}
		return prefix + rapid.SampledFrom(protectedPointers[:12]).Draw(t, label+"-behind")
	case 2:
		// a location below a protected member with an unusual last token
		base := rapid.SampledFrom([]string{"/publicKey", "/service", "/publicKey/0", "/service/0", "/publicKey/0/publicKeyJwk", "/publicKey/1"}).Draw(t, label+"-base")
		tok := rapid.SampledFrom(hostileTokens).Draw(t, label+"-tok")
		if rapid.IntRange(0, 3).Draw(t, label+"-randTok") == 0 {
			tok = genString(t, 4)
		}
		return base + "/" + tok
	}
	return genPointer(t, doc, label, false)
}

func protectedCanon(doc interface{}) string {
	rt, err := jsonRoundTrip(doc)
	if err != nil {
		return "ERR"
	}
	m, _ := rt.(map[string]interface{})
	out := map[string]interface{}{}
	for _, k := range []string{"publicKey", "service"} {
		if v, ok := m[k]; ok && !isEmptyList(v) {
			out[k] = v
		}
	}
	// ... and the keys and services as the library itself reads them out of the document (what resolution publishes)
	if m != nil {
		view := document.DidDocumentFromJSONLDObject(m)
		if pks, err := jsonRoundTrip(view.PublicKeys()); err == nil && !isEmptyList(pks) {
			out["keys as read by the library"] = pks
		}
		if svcs, err := jsonRoundTrip(view.Services()); err == nil && !isEmptyList(svcs) {
			out["services as read by the library"] = svcs
		}
	}
	return refJCS(out)
}

func mentionsProtected(op map[string]interface{}) bool {
	s := refJCS(op)
	return strings.Contains(s, "publicKey") || strings.Contains(s, "service") || op["path"] == "" || op["from"] == ""
}

func TestC11_IetfCannotTouchKeys(t *testing.T) {
	st := statsFor("C11")
	composer := doccomposer.New()
	check(t, "C11", 6000, func(t *rapid.T) {
		doc := genDocument(t, false)
		if _, ok := doc["publicKey"]; !ok && rapid.IntRange(0, 3).Draw(t, "keepWithoutKeys") > 0 {
			doc["publicKey"] = genKeyList(t, 1, 3, false)
		}
		if _, ok := doc["service"]; !ok && rapid.Bool().Draw(t, "forceSvc") {
			doc["service"] = genServiceList(t, 1, 2)
		}
		n := rapid.IntRange(1, 4).Draw(t, "nops")
		var ops []interface{}
		var work interface{} = doc
		mentions := false
		mode := rapid.IntRange(0, 2).Draw(t, "mode")
		special := rapid.IntRange(0, n-1).Draw(t, "specialAt")
		modeLabel := []string{"mode-clean+lookalike", "mode-one-protected-op", "mode-free"}[mode]
		for i := 0; i < n; i++ {
			var op map[string]interface{}
			switch {
			case mode == 2:
				kind := rapid.SampledFrom(ops6902).Draw(t, "op")
				op = map[string]interface{}{"op": kind, "path": genC11Pointer(t, work, "path")}
				if kind == "move" || kind == "copy" {
					op["from"] = genC11Pointer(t, work, "from")
				}
			case i == special && mode == 1:
				// an operation that is applicable per RFC 6902 and touches keys/services through path or from
				for try := 0; try < 8; try++ {
					cand := genOp6902(t, work, false)
					cp, _ := cand["path"].(string)
					cf, _ := cand["from"].(string)
					if !(touchesProtected(cp) && cp != "" || cand["from"] != nil && touchesProtected(cf) && cf != "") {
						continue
					}
					if _, err := refPatch6902(work, cand); err == nil {
						op = cand
						break
					}
				}
				if op == nil || rapid.IntRange(0, 3).Draw(t, "hostileProtected") == 0 {
					// add a member below a key/service through an unusual token (applicable: adding a fresh member)
					base := rapid.SampledFrom([]string{"/publicKey/0", "/publicKey/0/publicKeyJwk", "/service/0"}).Draw(t, "hostileBase")
					tok := rapid.SampledFrom(hostileTokens).Draw(t, "hostileTok")
					cand := map[string]interface{}{"op": "add", "path": base + "/" + tok, "value": "injected"}
					if _, err := refPatch6902(work, cand); err == nil {
						op = cand
					}
				}
				if op == nil {
					op = map[string]interface{}{"op": "remove", "path": "/publicKey/0"}
				}
			case i == special && mode == 0:
				// look-alike pointers that are not the protected members
				kind := rapid.SampledFrom(ops6902).Draw(t, "op")
				op = map[string]interface{}{"op": kind, "path": rapid.SampledFrom(protectedPointers[12:]).Draw(t, "lookalike")}
				if kind == "move" || kind == "copy" {
					op["from"] = genPointer(t, work, "from", true)
					if rapid.Bool().Draw(t, "swap") {
						op["from"], op["path"] = op["path"], op["from"]
					}
				}
			default:
				for try := 0; try < 6 && op == nil; try++ {
					cand := genOp6902(t, work, true)
					if _, err := refPatch6902(work, cand); err == nil {
						op = cand
					}
				}
				if op == nil {
					op = map[string]interface{}{"op": "add", "path": "/fresh", "value": "v"}
				}
			}
			if rapid.IntRange(0, 9).Draw(t, "aliasMember") == 0 {
				// members with the names other vocabularies use for keys and services are ordinary members here
				op = map[string]interface{}{"op": "add", "path": "/" + rapid.SampledFrom([]string{"verificationMethod", "publicKeys", "services", "authentication", "keys"}).Draw(t, "alias"),
					"value": rapid.SampledFrom([]interface{}{genKeyList(t, 1, 2, false), genServiceList(t, 1, 2)}).Draw(t, "aliasValue")}
			}
			switch op["op"] {
			case "add", "replace", "test":
				if _, has := op["value"]; !has || rapid.IntRange(0, 5).Draw(t, "valueKind") == 0 {
					if rapid.IntRange(0, 3).Draw(t, "protectedValue") == 0 {
						op["value"] = map[string]interface{}{"publicKey": []interface{}{}, "service": []interface{}{}}
					} else {
						op["value"] = genSmallValue(t)
					}
				}
			}
			if rapid.IntRange(0, 7).Draw(t, "memberCase") == 0 {
				// member names of the operation object in another case / duplicated in another case
				from := rapid.SampledFrom([]string{"from", "path", "op"}).Draw(t, "caseMember")
				to := map[string]string{"from": "From", "path": "Path", "op": "Op"}[from]
				if v, ok := op[from]; ok {
					op[to] = v
					if rapid.Bool().Draw(t, "dropLower") {
						delete(op, from)
					} else {
						op[from] = rapid.SampledFrom([]interface{}{"/name", "/x", "test", "add"}).Draw(t, "lowerValue")
					}
				}
			}
			if kind, ok := op["op"].(string); ok && kind != "" && rapid.IntRange(0, 9).Draw(t, "opNameCase") == 0 {
				// operation names are case-sensitive: "Move" is no operation. Whoever takes it for one anywhere must take it
				// for one everywhere
				op["op"] = rapid.SampledFrom([]string{strings.ToUpper(kind[:1]) + kind[1:], strings.ToUpper(kind), kind + " "}).Draw(t, "opNameSpelling")
			}
			if mentionsProtected(op) {
				mentions = true
			}
			ops = append(ops, op)
			// keep a working copy in step with the reference so that later pointers make sense (best effort)
			if next, err := refPatch6902(work, op); err == nil {
				if _, ok := next.(map[string]interface{}); ok {
					work = next
				}
			}
		}
		p := map[string]interface{}{"action": "ietf-json-patch", "patches": ops}
		lp, err := libPatch(p)
		if err != nil {
			t.Fatalf("C11 harness: patch not parseable: %v", err)
		}
		labels := []string{modeLabel}
		for _, o := range ops {
			kind, _ := o.(map[string]interface{})["op"].(string)
			labels = append(labels, "op-"+kind)
		}
		verr := patchvalidator.Validate(lp)
		if again := patchvalidator.Validate(lp); (verr == nil) != (again == nil) {
			t.Fatalf("C11 the validator's verdict on one and the same patch changed between calls: first %v, then %v\n patch=%s", verr, again, refJCS(ops))
		}
		if verr != nil {
			labels = append(labels, "refused-by-validator")
			st.Case(false, "", labels...)
			return
		}
		labels = append(labels, "validated")
		before := protectedCanon(doc)
		journal("ApplyPatches", []byte(refJCS(map[string]interface{}{"doc": doc, "patches": []interface{}{p}})))
		got, aerr := composer.ApplyPatches(libDoc(doc), lpList(lp))
		if aerr != nil {
			labels = append(labels, "validated-not-applicable")
			st.Case(mentions, refJCS(doc)+refJCS(ops), labels...)
			return
		}
		after := protectedCanon(got)
		if before != after {
			t.Fatalf("C11 validated ietf-json-patch changed keys/services\n doc=%s\n patch=%s\n keys/services before=%s\n after= %s", refJCS(doc), refJCS(ops), before, after)
		}
		changed := docCanon(got) != refJCS(normalizeDoc(doc))
		if changed {
			labels = append(labels, "applied-and-changed")
		} else {
			labels = append(labels, "applied-no-change")
		}
		if mentions {
			labels = append(labels, "validated-mentions-protected")
		}
		st.Case(mentions || changed, refJCS(doc)+refJCS(ops), labels...)
		st.Sample("validated", 3, func() interface{} {
			return map[string]interface{}{"doc": doc, "ops": ops, "result": mustJSON(docCanon(got))}
		})
	})
}

// FuzzC11: coverage-guided search over the text of the operation list. The oracle is the property itself and needs no
// model: whatever passes validation and applies leaves the keys and services of the document as they were.
func FuzzC11(f *testing.F) {
	for _, s := range []string{
		`[{"op":"add","path":"/x","value":1}]`,
		`[{"op":"move","from":"/publicKey/0","path":"/x"}]`,
		`[{"op":"copy","from":"/x","path":"/publicKey/-"}]`,
		`[{"op":"replace","path":"","value":{}}]`,
		`[{"op":"remove","path":"/service/0/type"}]`,
		`[{"op":"add","path":"/a~1b","value":null},{"op":"test","path":"/publicKey/0/id","value":"k1"}]`,
		`[{"Op":"remove","op":"test","Path":"/publicKey","path":"/x"}]`,
		`[{"op":"move","from":"/x/y/0","path":"/x/y/-"},{"op":"copy","from":"/alsoKnownAs","path":"/aka2"}]`,
		`[{"op":"add","path":"/x/publicKey","value":[]},{"op":"move","from":"/x","path":"/z"}]`,
		`[{"op":"remove","path":"/x"},{"op":"add","path":"","value":{"publicKey":[]}}]`,
		`[{"op":"replace","path":"/publicKey/0/id","value":"other"}]`,
		`[{"op":"copy","from":"/publicKey/0","path":"/service/0/copied"}]`,
	} {
		f.Add(s, byte(0))
	}
	k1 := map[string]interface{}{"id": "k1", "type": tJWK2020, "purposes": []interface{}{"authentication"}, "publicKeyJwk": docJWK(pool()[ktP256][0])}
	k2 := map[string]interface{}{"id": "k2", "type": tJWK2020, "publicKeyJwk": docJWK(pool()[ktEd25519][0])}
	svc := map[string]interface{}{"id": "s1", "type": "website", "serviceEndpoint": "https://s.example/"}
	docs := []map[string]interface{}{
		{"publicKey": []interface{}{k1, k2}, "service": []interface{}{svc}, "alsoKnownAs": []interface{}{"https://a.example/"}, "x": map[string]interface{}{"y": []interface{}{"1", "2"}}, "a/b": "v"},
		{"publicKey": []interface{}{k1}, "x": "v", "publicKeyX": []interface{}{k2}},
		{"publicKey": []interface{}{k2, k1}, "service": []interface{}{svc, map[string]interface{}{"id": "s2", "type": "t", "serviceEndpoint": []interface{}{"https://a.example/", "https://b.example/"}}}},
	}
	composer := doccomposer.New()
	f.Fuzz(func(t *testing.T, ops string, sel byte) {
		if len(ops) > 4096 {
			return
		}
		lp, err := patch.FromBytes([]byte(`{"action":"ietf-json-patch","patches":` + ops + `}`))
		if err != nil {
			return
		}
		if patchvalidator.Validate(lp) != nil {
			return
		}
		doc := docs[int(sel)%len(docs)]
		before := protectedCanon(doc)
		got, err := composer.ApplyPatches(libDoc(doc), lpList(lp))
		if err != nil {
			return
		}
		if after := protectedCanon(got); after != before {
			t.Fatalf("C11 validated ietf-json-patch changed keys/services\n doc=%s\n patch=%s\n before=%s\n after= %s", refJCS(doc), ops, before, after)
		}
	})
}

// TestC11_Interleaved: keys and services are changed only by the dedicated actions, also when validated ietf-json-patches
// stand before, between and behind them in one list: the keys and services of the result are those of the dedicated
// patches applied alone (metamorphic relation: removing the ietf patches from the list changes nothing about them).
func TestC11_Interleaved(t *testing.T) {
	st := statsFor("C11")
	composer := doccomposer.New()
	check(t, "C11", 1500, func(t *rapid.T) {
		doc := genDocument(t, false)
		if _, ok := doc["publicKey"]; !ok {
			doc["publicKey"] = genKeyList(t, 1, 3, false)
		}
		var all, dedicated []interface{}
		var work = deepCopyValue(doc).(map[string]interface{})
		nIetf, nDed := 0, 0
		for i, n := 0, rapid.IntRange(2, 6).Draw(t, "npatches"); i < n; i++ {
			if rapid.Bool().Draw(t, "ietf") {
				p, _ := genValidIetfPatch(t, work, st)
				if p == nil {
					continue
				}
				next, err := refComposeOne(work, p)
				if err != nil {
					continue
				}
				work = next
				all = append(all, p)
				nIetf++
				continue
			}
			action := rapid.SampledFrom([]string{"add-public-keys", "remove-public-keys", "add-services", "remove-services"}).Draw(t, "action")
			p := genDedicatedPatch(t, action, work, false)
			next, err := refComposeOne(work, p)
			if err != nil {
				continue
			}
			work = next
			all = append(all, p)
			dedicated = append(dedicated, p)
			nDed++
		}
		if nIetf == 0 || nDed == 0 {
			st.Exclude("list without both kinds of patch")
			return
		}
		lall, err := libPatches(all)
		if err != nil {
			t.Fatalf("C11 harness: %v", err)
		}
		for _, lp := range lall {
			if verr := patchvalidator.Validate(lp); verr != nil {
				t.Fatalf("C11 harness: generated patch does not validate: %v", verr)
			}
		}
		lded, _ := libPatches(dedicated)
		journal("ApplyPatches", []byte(refJCS(map[string]interface{}{"doc": doc, "patches": all})))
		gotAll, err := composer.ApplyPatches(libDoc(doc), lall)
		if err != nil {
			t.Fatalf("C11 list of validated, applicable patches failed: %v\n doc=%s\n patches=%s", err, refJCS(doc), refJCS(all))
		}
		gotDed, err := composer.ApplyPatches(libDoc(doc), lded)
		if err != nil {
			t.Fatalf("C11 dedicated patches alone failed: %v", err)
		}
		if a, d := protectedCanon(gotAll), protectedCanon(gotDed); a != d {
			t.Fatalf("C11 keys/services differ when validated ietf-json-patches stand between the dedicated patches\n doc=%s\n patches=%s\n with the ietf patches    %s\n dedicated patches alone  %s", refJCS(doc), refJCS(all), a, d)
		}
		st.Case(nIetf >= 2, "interleaved|"+refJCS(doc)+refJCS(all), "interleaved", fmt.Sprintf("interleaved-ietf-%d-dedicated-%d", nIetf, nDed))
	})
}

// TestC11_Concurrent: the validator's verdict on a patch does not depend on what other goroutines validate at the same
// moment: operations on keys / services stay refused next to harmless ones of the same shape and length.
func TestC11_Concurrent(t *testing.T) {
	st := statsFor("C11")
	check(t, "C11", 30, func(t *rapid.T) {
		n := rapid.IntRange(2, 8).Draw(t, "goroutines")
		rounds := rapid.IntRange(50, 400).Draw(t, "rounds")
		type job struct {
			p      patch.Patch
			refuse bool
			text   string
		}
		var jobs []job
		for i := 0; i < n; i++ {
			kind := rapid.SampledFrom([]string{"remove", "replace", "add", "copy", "move"}).Draw(t, "op")
			protected := rapid.SampledFrom([]string{"/publicKey", "/service", "/publicKey/0", "/service/0/type"}).Draw(t, "protected")
			// the harmless twin has the same length: one letter of the member name changed
			harmless := strings.Replace(strings.Replace(protected, "publicKey", "publicKex", 1), "service", "servicf", 1)
			target := harmless
			refuse := i%2 == 0
			if refuse {
				target = protected
			}
			op := map[string]interface{}{"op": kind, "path": target}
			switch kind {
			case "replace", "add":
				op["value"] = "v"
			case "copy", "move":
				op["from"] = "/name"
				if rapid.Bool().Draw(t, "viaFrom") {
					op["from"], op["path"] = target, "/name"
				}
			}
			text := refJCS(map[string]interface{}{"action": "ietf-json-patch", "patches": []interface{}{op}})
			lp, err := patch.FromBytes([]byte(text))
			if err != nil {
				t.Fatalf("C11 harness: %v", err)
			}
			jobs = append(jobs, job{lp, refuse, text})
		}
		errs := make(chan string, n)
		var wg sync.WaitGroup
		for i := range jobs {
			wg.Add(1)
			go func(j job) {
				defer wg.Done()
				for r := 0; r < rounds; r++ {
					err := patchvalidator.Validate(j.p)
					if j.refuse && err == nil {
						errs <- "patch addressing keys / services passed validation: " + j.text
						return
					}
					if !j.refuse && err != nil {
						errs <- fmt.Sprintf("harmless patch refused (%v): %s", err, j.text)
						return
					}
				}
			}(jobs[i])
		}
		awaitWorkers(t, &wg, "C11 concurrent validation")
		close(errs)
		for e := range errs {
			t.Fatalf("C11 (with %d goroutines validating at the same time) %s", n, e)
		}
		st.Case(true, fmt.Sprint("concurrent|", n, rounds, jobs[0].text), "concurrent", fmt.Sprintf("goroutines-%d", n))
	})
}
