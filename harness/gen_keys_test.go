package harness

// Deterministic key pool (all five supported key types), harness-side JWK encoding at fixed width, deterministic
// signing and compact-JWS assembly. Only the Go standard library and btcec's curve parameters are used here.

import (
	"crypto/ecdsa"
	"crypto/ed25519"
	"crypto/elliptic"
	"crypto/sha256"
	"crypto/sha512"
	"encoding/binary"
	"fmt"
	"math/big"
	"sync"

	"github.com/btcsuite/btcd/btcec/v2"
	"pgregory.net/rapid"

	"github.com/trustbloc/sidetree-go/pkg/jws"
)

type keyType int

const (
	ktEd25519 keyType = iota
	ktP256
	ktP384
	ktP521
	ktSecp256k1
	numKeyTypes
)

var keyTypeNames = []string{"Ed25519", "P-256", "P-384", "P-521", "secp256k1"}

func (kt keyType) String() string { return keyTypeNames[kt] }

// Key is a harness key pair. Nonce ("" = none) is part of the JWK and therefore of commitments.
type Key struct {
	Type  keyType
	Ed    ed25519.PrivateKey
	EC    *ecdsa.PrivateKey
	Nonce string
	Name  string
}

func (k *Key) curve() elliptic.Curve {
	switch k.Type {
	case ktP256:
		return elliptic.P256()
	case ktP384:
		return elliptic.P384()
	case ktP521:
		return elliptic.P521()
	case ktSecp256k1:
		return btcec.S256()
	}
	return nil
}

func curveOf(kt keyType) elliptic.Curve { return (&Key{Type: kt}).curve() }

// Width is the fixed byte width of a coordinate / signature half.
func (kt keyType) Width() int {
	switch kt {
	case ktP256, ktSecp256k1, ktEd25519:
		return 32
	case ktP384:
		return 48
	case ktP521:
		return 66
	}
	return 0
}

func (kt keyType) Crv() string { return keyTypeNames[kt] }

func (kt keyType) Kty() string {
	if kt == ktEd25519 {
		return "OKP"
	}
	return "EC"
}

// Alg is the JWS algorithm name conventionally used with the key type.
func (kt keyType) Alg() string {
	return []string{"EdDSA", "ES256", "ES384", "ES512", "ES256K"}[kt]
}

func (kt keyType) hash(msg []byte) []byte {
	switch kt {
	case ktP256, ktSecp256k1:
		h := sha256.Sum256(msg)
		return h[:]
	case ktP384:
		h := sha512.Sum384(msg)
		return h[:]
	case ktP521:
		h := sha512.Sum512(msg)
		return h[:]
	}
	return nil
}

func fixedWidth(b *big.Int, w int) []byte {
	out := make([]byte, w)
	b.FillBytes(out)
	return out
}

// XY returns the fixed-width coordinate encodings (y nil for Ed25519).
func (k *Key) XY() ([]byte, []byte) {
	if k.Type == ktEd25519 {
		return []byte(k.Ed.Public().(ed25519.PublicKey)), nil
	}
	w := k.Type.Width()
	return fixedWidth(k.EC.X, w), fixedWidth(k.EC.Y, w)
}

// JWKValue is the JSON value of the public JWK as the library's signed-data model serializes it:
// crv, kty, x, y always present (y empty for OKP), nonce only when set.
func (k *Key) JWKValue() map[string]interface{} {
	x, y := k.XY()
	m := map[string]interface{}{"kty": k.Type.Kty(), "crv": k.Type.Crv(), "x": b64(x), "y": ""}
	if y != nil {
		m["y"] = b64(y)
	}
	if k.Nonce != "" {
		m["nonce"] = k.Nonce
	}
	return m
}

// LibJWK builds the library's JWK struct from the harness encoding (not via pubkey.GetPublicKeyJWK).
func (k *Key) LibJWK() *jws.JWK {
	v := k.JWKValue()
	return &jws.JWK{Kty: v["kty"].(string), Crv: v["crv"].(string), X: v["x"].(string), Y: v["y"].(string), Nonce: k.Nonce}
}

// Public returns the crypto.PublicKey (ed25519.PublicKey or *ecdsa.PublicKey).
func (k *Key) Public() interface{} {
	if k.Type == ktEd25519 {
		return k.Ed.Public().(ed25519.PublicKey)
	}
	return &k.EC.PublicKey
}

func (k *Key) WithNonce(n string) *Key {
	c := *k
	c.Nonce = n
	return &c
}

func (k *Key) Commitment(alg uint) string { return refCommitmentOf(k.JWKValue(), alg) }
func (k *Key) Reveal(alg uint) string     { return refHash(k.JWKValue(), alg) }

// Sign produces a fixed-width r||s (or Ed25519) signature with a deterministic nonce.
// want selects a signature shape: 0 any, 1 leading zero byte in r, 2 leading zero byte in s.
func (k *Key) Sign(msg []byte, want int) []byte {
	if k.Type == ktEd25519 {
		return ed25519.Sign(k.Ed, msg)
	}
	c := k.curve()
	n := c.Params().N
	z := new(big.Int).SetBytes(k.Type.hash(msg))
	w := k.Type.Width()
	for ctr := uint32(0); ; ctr++ {
		var cb [4]byte
		binary.BigEndian.PutUint32(cb[:], ctr)
		h := sha512.Sum512(append(append(k.EC.D.Bytes(), msg...), cb[:]...))
		h2 := sha512.Sum512(h[:])
		kk := new(big.Int).SetBytes(append(h[:], h2[:8]...))
		kk.Mod(kk, new(big.Int).Sub(n, big.NewInt(1)))
		kk.Add(kk, big.NewInt(1))
		x, _ := c.ScalarBaseMult(kk.Bytes())
		r := new(big.Int).Mod(x, n)
		if r.Sign() == 0 {
			continue
		}
		s := new(big.Int).Mul(r, k.EC.D)
		s.Add(s, z)
		s.Mul(s, new(big.Int).ModInverse(kk, n))
		s.Mod(s, n)
		if s.Sign() == 0 {
			continue
		}
		rb, sb := fixedWidth(r, w), fixedWidth(s, w)
		if want == 1 && rb[0] != 0 && ctr <= 4000 {
			continue
		}
		if want == 2 && sb[0] != 0 && ctr <= 4000 {
			continue
		}
		return append(rb, sb...)
	}
}

// ---- pool ----

var (
	poolOnce sync.Once
	keyPool  [numKeyTypes][]*Key
	// lzKeys[type] = keys having a leading zero byte in x (index 0) or y (index 1)
	lzKeys [numKeyTypes][2]*Key
)

const poolPerType = 12

func deriveScalar(kt keyType, i int) *big.Int {
	n := curveOf(kt).Params().N
	h := sha512.Sum512([]byte(fmt.Sprintf("verif-key-%s-%d", kt, i)))
	h2 := sha512.Sum512(h[:])
	d := new(big.Int).SetBytes(append(h[:], h2[:8]...))
	d.Mod(d, new(big.Int).Sub(n, big.NewInt(1)))
	return d.Add(d, big.NewInt(1))
}

func ecKeyFromScalar(kt keyType, d *big.Int, name string) *Key {
	c := curveOf(kt)
	x, y := c.ScalarBaseMult(d.Bytes())
	return &Key{Type: kt, Name: name, EC: &ecdsa.PrivateKey{PublicKey: ecdsa.PublicKey{Curve: c, X: x, Y: y}, D: d}}
}

func buildPool() {
	for i := 0; i < poolPerType; i++ {
		seed := sha256.Sum256([]byte(fmt.Sprintf("verif-ed-%d", i)))
		keyPool[ktEd25519] = append(keyPool[ktEd25519], &Key{Type: ktEd25519, Ed: ed25519.NewKeyFromSeed(seed[:]), Name: fmt.Sprintf("ed-%d", i)})
	}
	for kt := ktP256; kt < numKeyTypes; kt++ {
		for i := 0; i < poolPerType; i++ {
			keyPool[kt] = append(keyPool[kt], ecKeyFromScalar(kt, deriveScalar(kt, i), fmt.Sprintf("%s-%d", kt, i)))
		}
		// search keys with a leading zero byte in x / in y
		for i := 1000; i < 200000 && (lzKeys[kt][0] == nil || lzKeys[kt][1] == nil); i++ {
			k := ecKeyFromScalar(kt, deriveScalar(kt, i), fmt.Sprintf("%s-lz-%d", kt, i))
			x, y := k.XY()
			if x[0] == 0 && lzKeys[kt][0] == nil {
				lzKeys[kt][0] = k
				keyPool[kt] = append(keyPool[kt], k)
			}
			if y[0] == 0 && lzKeys[kt][1] == nil {
				lzKeys[kt][1] = k
				keyPool[kt] = append(keyPool[kt], k)
			}
		}
	}
}

func pool() *[numKeyTypes][]*Key {
	poolOnce.Do(buildPool)
	return &keyPool
}

var allKeyTypes = []keyType{ktEd25519, ktP256, ktP384, ktP521, ktSecp256k1}

func genKeyType(t *rapid.T, label string) keyType {
	return rapid.SampledFrom(allKeyTypes).Draw(t, label)
}

// genKey selects a key of the given type from the pool (leading-zero keys are over-represented).
func genKeyOf(t *rapid.T, kt keyType, label string) *Key {
	p := pool()[kt]
	i := rapid.IntRange(0, len(p)+1).Draw(t, label)
	if i >= len(p) {
		i = len(p) - 1 - (i - len(p)) // the last two entries (leading-zero keys for EC types) get extra weight
		if i < 0 {
			i = 0
		}
	}
	return p[i]
}

func genKey(t *rapid.T, label string) *Key {
	return genKeyOf(t, genKeyType(t, label+"-type"), label)
}

// genNonce draws a base64url nonce of exactly size bytes.
func genNonce(t *rapid.T, size int, label string) string {
	s := b64(rapid.SliceOfN(rapid.Byte(), size, size).Draw(t, label))
	if rapid.IntRange(0, 5).Draw(t, label+"-spareBits") == 0 {
		// a nonce drawn as a random base64url string of the right length rather than as encoded bytes: the bits of the last
		// character that encode nothing are set. It still decodes to the configured size and is, as a member of the JWK, a
		// different string - another key with another commitment
		s = nonCanonicalTail(s)
	}
	return s
}

// hasLeadingZero reports whether a coordinate of the key starts with a zero byte.
func (k *Key) hasLeadingZero() bool {
	x, y := k.XY()
	return x[0] == 0 || (y != nil && y[0] == 0)
}

// ---- compact JWS assembled by hand ----

// headerJSON returns the protected header serialization the library re-creates when verifying (sorted, compact).
func headerJSON(h map[string]interface{}) string { return refJCS(h) }

func compactJWS(header string, payload, sig []byte) string {
	return b64([]byte(header)) + "." + b64(payload) + "." + b64(sig)
}

// signCompact signs payload with k under the given header value and returns the compact JWS.
func signCompact(k *Key, header map[string]interface{}, payload []byte, want int) string {
	hs := headerJSON(header)
	input := b64([]byte(hs)) + "." + b64(payload)
	return compactJWS(hs, payload, k.Sign([]byte(input), want))
}
