package harness

// refApply: the Sidetree v1 state machine over an abstract description of an operation (type, outcome class, payload,
// metadata), producing all ResolutionModel fields; plus the catalogue of labelled invalidations used by C01/C02/C12.

import (
	"fmt"
	"reflect"
	"strings"

	"github.com/trustbloc/sidetree-go/pkg/api/operation"
	"github.com/trustbloc/sidetree-go/pkg/api/protocol"
	"pgregory.net/rapid"
)

type outcome int

const (
	outFull    outcome = iota // everything installed
	outNoDoc                  // commitments installed, document not changed (update) / empty (create, recover): window or patch application failed
	outNoDelta                // create/recover: recovery commitment + anchor origin installed, update commitment empty, document empty
	outRefused                // error, previous state stays in force
)

func (o outcome) String() string {
	return []string{"full", "no-doc", "no-delta", "refused"}[o]
}

type refModel struct {
	Exists                         bool
	Doc                            map[string]interface{}
	Created, Updated               uint64
	LastTime, LastNumber, LastVers uint64
	UpdateCommitment               string
	RecoveryCommitment             string
	Deactivated                    bool
	AnchorOrigin                   interface{}
	Equivalent                     []string
	Canonical, VersionID           string
}

// windowEffective is the anchoring-window rule of the property: no bounds => always; else from <= t <= until where a
// missing until defaults to from + maxOperationTimeDelta.
func windowEffective(from, until int64, t uint64, delta uint64) bool {
	if from == 0 && until == 0 {
		return true
	}
	tt := int64(t)
	if from > tt {
		return false
	}
	u := until
	if u == 0 {
		u = from + int64(delta)
	}
	return tt <= u
}

// opCase is one generated operation together with what the Sidetree rules say about it.
type opCase struct {
	Type      string
	Class     string // label of the (in)validation
	Build     *opBuild
	Bytes     []byte
	Outcome   outcome // before the window / state guards are considered
	Patches   []interface{}
	NewDoc    map[string]interface{} // reference result of the patches (create/recover: on {}, update: on current doc)
	From      int64
	Until     int64
	Windowed  bool // subject to the anchoring window (update, recover, deactivate)
	UpdateC   string
	RecoveryC string
	Origin    interface{}
}

// refApply folds one operation into the model. Returns the new model and whether the operation was refused.
func refApply(prev *refModel, c *opCase, m anchorMeta, p protocol.Protocol) (*refModel, outcome) {
	out := c.Outcome
	if c.Type == "create" {
		if prev.Exists {
			return prev, outRefused
		}
	} else if !prev.Exists {
		return prev, outRefused
	}
	if out == outRefused {
		return prev, outRefused
	}
	inWindow := true
	if c.Windowed {
		inWindow = windowEffective(c.From, c.Until, m.Time, p.MaxOperationTimeDelta)
	}
	n := &refModel{Exists: true}
	switch c.Type {
	case "create":
		n.Created = m.Time
		n.LastTime, n.LastNumber, n.LastVers = m.Time, m.Number, m.Version
		n.VersionID, n.Canonical, n.Equivalent = m.Canonical, m.Canonical, m.Equivalent
		n.RecoveryCommitment = c.RecoveryC
		n.AnchorOrigin = c.Origin
		n.Doc = map[string]interface{}{}
		if out == outNoDelta {
			return n, outNoDelta
		}
		n.UpdateCommitment = c.UpdateC
		if out == outNoDoc {
			return n, outNoDoc
		}
		n.Doc = c.NewDoc
		return n, outFull
	case "update":
		if out == outNoDelta {
			panic("update has no no-delta outcome")
		}
		*n = *prev
		n.Updated = m.Time
		n.LastTime, n.LastNumber, n.LastVers = m.Time, m.Number, m.Version
		n.VersionID = m.Canonical
		n.UpdateCommitment = c.UpdateC
		if out == outNoDoc || !inWindow {
			return n, outNoDoc
		}
		n.Doc = c.NewDoc
		return n, outFull
	case "recover":
		n.Created = prev.Created
		n.Updated = m.Time
		n.LastTime, n.LastNumber, n.LastVers = m.Time, m.Number, m.Version
		n.VersionID, n.Canonical, n.Equivalent = m.Canonical, m.Canonical, m.Equivalent
		n.RecoveryCommitment = c.RecoveryC
		n.AnchorOrigin = c.Origin
		n.Doc = map[string]interface{}{}
		if out == outNoDelta {
			return n, outNoDelta
		}
		n.UpdateCommitment = c.UpdateC
		if out == outNoDoc || !inWindow {
			return n, outNoDoc
		}
		n.Doc = c.NewDoc
		return n, outFull
	case "deactivate":
		if !inWindow {
			return prev, outRefused
		}
		*n = *prev
		n.Updated = m.Time
		n.LastTime, n.LastNumber, n.LastVers = m.Time, m.Number, m.Version
		n.VersionID = m.Canonical
		n.Doc = map[string]interface{}{}
		n.UpdateCommitment, n.RecoveryCommitment = "", ""
		n.Deactivated = true
		return n, outFull
	}
	panic("refApply: type " + c.Type)
}

func originCanon(v interface{}) string {
	if v == nil {
		return "null"
	}
	rt, err := jsonRoundTrip(v)
	if err != nil {
		return "ERR"
	}
	return refJCS(rt)
}

// compareModel checks all fields of the library's resolution model against the reference.
func compareModel(got *protocol.ResolutionModel, want *refModel, pub, unpub []*operation.AnchoredOperation) error {
	if got == nil {
		return fmt.Errorf("nil resolution model")
	}
	if (got.Doc != nil) != want.Exists {
		return fmt.Errorf("document present = %v, want %v", got.Doc != nil, want.Exists)
	}
	if want.Exists {
		if g, w := docCanon(got.Doc), refJCS(normalizeDoc(want.Doc)); g != w {
			return fmt.Errorf("document\n got  %s\n want %s", g, w)
		}
	}
	type f struct {
		name      string
		got, want interface{}
	}
	fields := []f{
		{"CreatedTime", got.CreatedTime, want.Created},
		{"UpdatedTime", got.UpdatedTime, want.Updated},
		{"LastOperationTransactionTime", got.LastOperationTransactionTime, want.LastTime},
		{"LastOperationTransactionNumber", got.LastOperationTransactionNumber, want.LastNumber},
		{"LastOperationProtocolVersion", got.LastOperationProtocolVersion, want.LastVers},
		{"UpdateCommitment", got.UpdateCommitment, want.UpdateCommitment},
		{"RecoveryCommitment", got.RecoveryCommitment, want.RecoveryCommitment},
		{"Deactivated", got.Deactivated, want.Deactivated},
		{"CanonicalReference", got.CanonicalReference, want.Canonical},
		{"VersionID", got.VersionID, want.VersionID},
		{"AnchorOrigin", originCanon(got.AnchorOrigin), originCanon(want.AnchorOrigin)},
		{"EquivalentReferences", strings.Join(got.EquivalentReferences, "\x00"), strings.Join(want.Equivalent, "\x00")},
	}
	for _, x := range fields {
		if !reflect.DeepEqual(x.got, x.want) {
			return fmt.Errorf("%s = %v, want %v", x.name, x.got, x.want)
		}
	}
	if !sameOps(got.PublishedOperations, pub) {
		return fmt.Errorf("PublishedOperations not carried over unchanged")
	}
	if !sameOps(got.UnpublishedOperations, unpub) {
		return fmt.Errorf("UnpublishedOperations not carried over unchanged")
	}
	return nil
}

func sameOps(a, b []*operation.AnchoredOperation) bool {
	if len(a) != len(b) {
		return false
	}
	for i := range a {
		if a[i] != b[i] {
			return false
		}
	}
	return true
}

// ---- operation cases: valid builds + labelled invalidations ----

type chainKeys struct {
	Update   *Key // key committed for the next update
	Recovery *Key // key committed for the next recover / deactivate
}

type opGenCtx struct {
	P       protocol.Protocol
	Doc     map[string]interface{} // current reference document (for updates)
	Suffix  string
	Keys    chainKeys
	Time    uint64 // anchoring time of this operation (windows are drawn around it)
	St      *propStats
	NoIetf  bool
	Classes []string // restrict to these classes (nil = any)
}

func genAlgFor(t *rapid.T, p protocol.Protocol) uint {
	return rapid.SampledFrom(p.MultihashAlgorithms).Draw(t, "hashAlg")
}

func genNoncedKey(t *rapid.T, p protocol.Protocol, label string) *Key {
	k := genKey(t, label)
	if rapid.Bool().Draw(t, label+"-nonce") {
		return k.WithNonce(genNonce(t, int(p.NonceSize), label+"-nonceBytes"))
	}
	return k
}

// genWindow draws (from, until) around t so that all orderings and equalities are frequent.
func genWindow(t *rapid.T, tm uint64) (int64, int64) {
	switch rapid.IntRange(0, 5).Draw(t, "windowKind") {
	case 0, 1:
		return 0, 0
	case 2:
		return int64(tm) + int64(rapid.IntRange(-3, 3).Draw(t, "fromOff")), 0
	case 3:
		return 0, int64(tm) + int64(rapid.IntRange(-3, 3).Draw(t, "untilOff"))
	default:
		return int64(tm) + int64(rapid.IntRange(-3, 3).Draw(t, "fromOff")), int64(tm) + int64(rapid.IntRange(-3, 3).Draw(t, "untilOff"))
	}
}

func clampWindow(from, until int64) (int64, int64) {
	if from < 0 {
		from = 0
	}
	if until < 0 {
		until = 0
	}
	return from, until
}

var signedRefusals = []string{"not-json", "missing-suffix", "missing-signed-data", "missing-reveal", "reveal-other-key", "reveal-malformed",
	"alg-not-allowed", "alg-missing", "alg-empty", "extra-header", "bad-signature", "signed-by-other-key", "payload-changed-not-resigned",
	"nonce-wrong-size", "nonce-undecodable", "key-missing-member", "jws-two-segments", "jws-bad-base64", "payload-not-json", "key-curve-not-allowed-or-missing-key",
	"reveal-respelled", "reveal-shortened", "header-duplicate-member", "reveal-edited", "header-not-object", "alg-not-string"}

var deltaProblems = []string{"delta-hash-mismatch", "delta-missing", "delta-empty-patches", "delta-invalid-patch", "delta-unknown-action",
	"delta-bad-update-commitment", "delta-too-large"}

// maybeKid adds the optional kid member to the protected header of a signed request (re-signed).
func maybeKid(t *rapid.T, b *opBuild) {
	if b.Type == "create" || rapid.IntRange(0, 2).Draw(t, "withKid") != 0 {
		return
	}
	b.Header["kid"] = rapid.SampledFrom([]string{"key-1", "#signing", "did:example:123#k", "ké", "0"}).Draw(t, "kid")
	b.sign()
	b.assemble()
}

// tamperSigned applies one refusal class common to update / recover / deactivate requests. Returns raw bytes.
func tamperSigned(t *rapid.T, b *opBuild, class string, p protocol.Protocol) []byte {
	switch class {
	case "not-json":
		raw := b.bytes()
		return raw[:len(raw)/2]
	case "missing-suffix":
		delete(b.Req, "didSuffix")
	case "missing-signed-data":
		delete(b.Req, "signedData")
	case "missing-reveal":
		delete(b.Req, "revealValue")
	case "reveal-other-key":
		b.Req["revealValue"] = otherKey(t, b.SignKey).Reveal(b.Alg)
		if rapid.Bool().Draw(t, "signedCarriesRightReveal") {
			// a reveal value inside the signed data is not the operation's reveal value
			b.Signed["revealValue"] = b.Reveal
			b.sign()
			b.Req["signedData"] = b.JWS
		}
	case "reveal-malformed":
		b.Req["revealValue"] = rapid.SampledFrom([]string{"abc", "", "EiA", b.Reveal + "A", strings.Repeat("E", 120)}).Draw(t, "badReveal")
	case "reveal-respelled":
		// another base64url spelling that decodes to the same multihash bytes: not the reveal value of the key
		alt := nonCanonicalTail(b.Reveal)
		if alt == b.Reveal { // no spare bits (sha2-512)
			alt = otherKey(t, b.SignKey).Reveal(b.Alg)
		}
		b.Req["revealValue"] = alt
	case "reveal-edited":
		// exactly one string is the reveal value of the signing key: any other string is not
		b.Req["revealValue"], _ = editString(t, b.Reveal)
	case "reveal-shortened":
		// a well-formed multihash of the right algorithm whose length field and digest were shortened together
		d := refDigest(b.Alg, []byte(refJCS(b.SignKey.JWKValue())))
		k := rapid.IntRange(0, len(d)-1).Draw(t, "shortLen")
		b.Req["revealValue"] = b64(refMultihashBytes(b.Alg, d[:k]))
	case "header-duplicate-member":
		// RFC 7515 section 4: header parameter names MUST be unique. The honest signature is over the header without the duplicate.
		hs := headerJSON(b.Header)
		pl := []byte(refJCS(b.Signed))
		sig := b.SignKey.Sign([]byte(b64([]byte(hs))+"."+b64(pl)), 0)
		firsts := []string{`"alg":"none"`, `"alg":"` + fmt.Sprint(b.Header["alg"]) + `"`, `"alg":"HS256"`}
		if _, ok := b.Header["kid"]; ok {
			firsts = append(firsts, `"kid":"k"`)
		}
		first := rapid.SampledFrom(firsts).Draw(t, "dupMember")
		dup := "{" + first + "," + hs[1:]
		if rapid.Bool().Draw(t, "dupLast") && hs != "{}" {
			dup = hs[:len(hs)-1] + "," + hs[1:]
		}
		b.JWS = compactJWS(dup, pl, sig)
		b.assemble()
	case "header-not-object", "alg-not-string":
		// signed consistently over the header text that is transmitted
		alg := fmt.Sprint(b.Header["alg"])
		var hs string
		if class == "header-not-object" {
			hs = rapid.SampledFrom([]string{"null", "[]", `["alg","` + alg + `"]`, `"` + alg + `"`, "1", "true", "{}", `[{"alg":"` + alg + `"}]`}).Draw(t, "headerText")
		} else {
			hs = `{"alg":` + rapid.SampledFrom([]string{"null", "1", "true", `["` + alg + `"]`, `{"alg":"` + alg + `"}`, "256"}).Draw(t, "algValue") + `}`
		}
		pl := []byte(refJCS(b.Signed))
		b.JWS = compactJWS(hs, pl, b.SignKey.Sign([]byte(b64([]byte(hs))+"."+b64(pl)), 0))
		b.assemble()
	case "alg-not-allowed":
		b.Header["alg"] = rapid.SampledFrom([]string{"HS256", "none", "RS256", "es256"}).Draw(t, "badAlg")
		b.sign()
		b.assemble()
	case "alg-missing":
		delete(b.Header, "alg")
		b.Header["kid"] = "k"
		b.sign()
		b.assemble()
	case "alg-empty":
		b.Header["alg"] = ""
		b.sign()
		b.assemble()
	case "extra-header":
		b.Header[rapid.SampledFrom([]string{"typ", "cty", "crit", "b64", "jwk", "x"}).Draw(t, "extraHeader")] = rapid.SampledFrom([]interface{}{"JWT", true, []interface{}{"b64"}}).Draw(t, "extraVal")
		b.sign()
		b.assemble()
	case "bad-signature":
		h, pl, s, _ := splitCompact(b.JWS)
		i := rapid.IntRange(0, len(s)*8-1).Draw(t, "sigBit")
		s[i/8] ^= 1 << (i % 8)
		b.JWS = compactJWS(string(h), pl, s)
		b.assemble()
	case "signed-by-other-key":
		o := otherKey(t, b.SignKey)
		hs := headerJSON(b.Header)
		pl := []byte(refJCS(b.Signed))
		b.JWS = compactJWS(hs, pl, o.Sign([]byte(b64([]byte(hs))+"."+b64(pl)), 0))
		b.assemble()
	case "payload-changed-not-resigned":
		before := refJCS(b.Signed)
		switch b.Type {
		case "update":
			b.Signed[rapid.SampledFrom([]string{"deltaHash", "anchorFrom", "anchorUntil"}).Draw(t, "field")] = changedField(t, b)
		case "recover":
			b.Signed[rapid.SampledFrom([]string{"deltaHash", "recoveryCommitment", "anchorOrigin", "anchorFrom"}).Draw(t, "field")] = changedField(t, b)
		default:
			b.Signed[rapid.SampledFrom([]string{"anchorFrom", "anchorUntil", "extra"}).Draw(t, "field")] = float64(1)
		}
		if refJCS(b.Signed) == before {
			b.Signed["zz"] = float64(1)
		}
		b.replacePayload()
		b.assemble()
	case "nonce-wrong-size":
		sz := int(p.NonceSize) + rapid.SampledFrom([]int{-1, 1, 8}).Draw(t, "nonceDelta")
		resignWithKey(b, b.SignKey.WithNonce(genNonce(t, sz, "badNonce")))
	case "nonce-undecodable":
		resignWithKey(b, b.SignKey.WithNonce(rapid.SampledFrom([]string{"!!!", "a=", "abc def"}).Draw(t, "badNonce")))
	case "key-missing-member":
		kn := keyMember(b.Type)
		jwk := b.Signed[kn].(map[string]interface{})
		delete(jwk, rapid.SampledFrom([]string{"kty", "crv", "x"}).Draw(t, "jwkMember"))
		b.sign()
		b.assemble()
	case "key-curve-not-allowed-or-missing-key":
		delete(b.Signed, keyMember(b.Type))
		b.sign()
		b.assemble()
	case "jws-two-segments":
		b.JWS = b.JWS[:strings.LastIndexByte(b.JWS, '.')]
		b.assemble()
	case "jws-bad-base64":
		b.JWS = strings.Replace(b.JWS, ".", ".*", 1)
		b.assemble()
	case "payload-not-json":
		hs := headerJSON(b.Header)
		pl := []byte("not json")
		b.JWS = compactJWS(hs, pl, b.SignKey.Sign([]byte(b64([]byte(hs))+"."+b64(pl)), 0))
		b.assemble()
	default:
		panic("tamperSigned: " + class)
	}
	return b.bytes()
}

func keyMember(typ string) string {
	if typ == "update" {
		return "updateKey"
	}
	return "recoveryKey"
}

func changedField(t *rapid.T, b *opBuild) interface{} {
	return rapid.SampledFrom([]interface{}{refHash(map[string]interface{}{"x": "attacker"}, b.Alg), float64(1), "attacker"}).Draw(t, "newValue")
}

// resignWithKey swaps the signing key (incl. JWK in the payload and the reveal value) and re-signs consistently.
func resignWithKey(b *opBuild, k *Key) {
	b.SignKey = k
	b.Signed[keyMember(b.Type)] = k.JWKValue()
	b.Reveal = k.Reveal(b.Alg)
	b.sign()
	b.assemble()
}

// applyDeltaProblem changes the delta according to class. For update/recover the signed delta hash is kept consistent
// (re-signed) unless the class is the hash mismatch itself.
func applyDeltaProblem(t *rapid.T, b *opBuild, class string, p protocol.Protocol) {
	rehash := true
	switch class {
	case "delta-hash-mismatch":
		rehash = false
		switch rapid.IntRange(0, 2).Draw(t, "deltaChange") {
		case 0:
			b.Delta["updateCommitment"] = otherKey(t, b.NextUpdate).Commitment(b.Alg)
		case 1:
			b.Delta["patches"] = append(append([]interface{}{}, b.Delta["patches"].([]interface{})...),
				map[string]interface{}{"action": "add-also-known-as", "uris": []interface{}{"https://attacker.example/"}})
		default:
			b.Delta["patches"] = []interface{}{map[string]interface{}{"action": "replace", "document": map[string]interface{}{
				"publicKeys": []interface{}{map[string]interface{}{"id": "attacker", "type": tJWK2020, "publicKeyJwk": docJWK(pool()[ktP256][1])}}}}}
		}
	case "delta-missing":
		rehash = false
		b.Delta = nil
	case "delta-empty-patches":
		b.Delta["patches"] = []interface{}{}
	case "delta-invalid-patch":
		badID := rapid.SampledFrom(badIDs).Draw(t, "invalidID") // the one constraint violated; everything else about the patch is in order
		b.Delta["patches"] = append(append([]interface{}{}, b.Delta["patches"].([]interface{})...), rapid.SampledFrom([]interface{}{
			map[string]interface{}{"action": "add-public-keys", "publicKeys": []interface{}{map[string]interface{}{"id": badID, "type": tJWK2020, "publicKeyJwk": docJWK(pool()[ktP256][0])}}},
			map[string]interface{}{"action": "remove-public-keys", "ids": []interface{}{"ok", badID}},
			map[string]interface{}{"action": "remove-services", "ids": []interface{}{badID}},
			map[string]interface{}{"action": "add-services", "services": []interface{}{map[string]interface{}{"id": badID, "type": "t", "serviceEndpoint": "https://s.example"}}},
			map[string]interface{}{"action": "remove-public-keys", "ids": []interface{}{}},
			map[string]interface{}{"action": "add-services", "services": []interface{}{map[string]interface{}{"id": "s", "type": "t"}}},
			map[string]interface{}{"action": "ietf-json-patch", "patches": []interface{}{map[string]interface{}{"op": "remove", "path": "/publicKey/0"}}},
			map[string]interface{}{"action": "replace", "document": map[string]interface{}{"id": "x"}},
		}).Draw(t, "invalidPatch"))
	case "delta-unknown-action":
		b.Delta["patches"] = append(append([]interface{}{}, b.Delta["patches"].([]interface{})...),
			map[string]interface{}{"action": rapid.SampledFrom([]string{"add-keys", "", "Replace"}).Draw(t, "unknownAction"), "ids": []interface{}{"a"}})
	case "delta-bad-update-commitment":
		b.Delta["updateCommitment"] = rapid.SampledFrom([]string{"", "abc", strings.Repeat("E", 120), b64(refMultihashBytes(17, make([]byte, 20)))}).Draw(t, "badCommitment")
	case "delta-too-large":
		big := strings.Repeat("x", int(p.MaxDeltaSize))
		b.Delta["patches"] = append(append([]interface{}{}, b.Delta["patches"].([]interface{})...),
			map[string]interface{}{"action": "add-also-known-as", "uris": []interface{}{"https://example.com/" + big}})
	default:
		panic("applyDeltaProblem: " + class)
	}
	if rehash {
		h := refHash(b.Delta, b.Alg)
		if b.Type == "create" {
			b.SuffixData["deltaHash"] = h
		} else {
			b.Signed["deltaHash"] = h
			b.sign()
		}
	}
	b.assemble()
}

var inapplicablePatch = map[string]interface{}{"action": "ietf-json-patch", "patches": []interface{}{
	map[string]interface{}{"op": "remove", "path": "/no/such/member"}}}

// genOpCase draws one operation of the given type with a class drawn from the catalogue (or from ctx.Classes).
func genOpCase(t *rapid.T, typ string, ctx *opGenCtx) *opCase {
	p := ctx.P
	alg := genAlgFor(t, p)
	c := &opCase{Type: typ}
	base := ctx.Doc
	if typ != "update" || base == nil {
		base = map[string]interface{}{}
	}
	if typ != "deactivate" {
		c.Patches, c.NewDoc = genOpPatches(t, base, !ctx.NoIetf, ctx.St)
	}
	if typ != "create" {
		c.Windowed = true
		c.From, c.Until = clampWindow(genWindow(t, ctx.Time))
	}
	var classes []string
	switch typ {
	case "create":
		classes = append([]string{"valid", "valid", "valid", "valid", "patches-inapplicable", "not-json", "missing-suffix-data", "recovery-commitment-bad",
			"delta-hash-malformed", "typed-as-other"}, deltaProblems...)
	case "update":
		classes = append(append([]string{"valid", "valid", "valid", "valid", "valid", "valid", "valid", "valid", "patches-inapplicable", "signed-deltahash-malformed", "signed-by-uncommitted-key"}, deltaProblems...), signedRefusals...)
	case "recover":
		classes = append(append([]string{"valid", "valid", "valid", "valid", "valid", "valid", "valid", "valid", "patches-inapplicable", "signed-deltahash-malformed", "recovery-commitment-malformed",
			"next-recovery-is-current-key", "signed-by-uncommitted-key"}, deltaProblems...), signedRefusals...)
	case "deactivate":
		classes = append([]string{"valid", "valid", "valid", "valid", "valid", "valid", "suffix-mismatch", "signed-by-uncommitted-key"}, signedRefusals...)
	}
	if ctx.Classes != nil {
		classes = ctx.Classes
	}
	class := rapid.SampledFrom(classes).Draw(t, "class")
	c.Class = class

	// valid build
	var b *opBuild
	switch typ {
	case "create":
		rec, upd := genNoncedKey(t, p, "nextRecovery"), genNoncedKey(t, p, "nextUpdate")
		if rec.Commitment(alg) == upd.Commitment(alg) {
			upd = otherKey(t, rec)
		}
		origin := genOrigin(t)
		b = newCreate(alg, rec, upd, c.Patches, origin, rapid.SampledFrom([]string{"", "", "0001"}).Draw(t, "suffixType"))
		c.Origin = origin
	case "update":
		signer := ctx.Keys.Update
		if class == "signed-by-uncommitted-key" || signer == nil {
			signer = genNoncedKey(t, p, "uncommitted")
		}
		next := genNoncedKey(t, p, "nextUpdate")
		if next.Commitment(alg) == signer.Commitment(alg) {
			next = otherKey(t, signer)
		}
		b = newUpdate(alg, ctx.Suffix, signer, next, c.Patches, c.From, c.Until)
	case "recover":
		signer := ctx.Keys.Recovery
		if class == "signed-by-uncommitted-key" || signer == nil {
			signer = genNoncedKey(t, p, "uncommitted")
		}
		nr, nu := genNoncedKey(t, p, "nextRecovery"), genNoncedKey(t, p, "nextUpdate")
		if nr.Commitment(alg) == signer.Commitment(alg) {
			nr = otherKey(t, signer)
		}
		if nu.Commitment(alg) == nr.Commitment(alg) {
			nu = otherKey(t, nr)
		}
		origin := genOrigin(t)
		b = newRecover(alg, ctx.Suffix, signer, nr, nu, c.Patches, origin, c.From, c.Until)
		c.Origin = origin
	case "deactivate":
		signer := ctx.Keys.Recovery
		if class == "signed-by-uncommitted-key" || signer == nil {
			signer = genNoncedKey(t, p, "uncommitted")
		}
		b = newDeactivate(alg, ctx.Suffix, signer, c.From, c.Until)
	}
	maybeKid(t, b)
	c.Build = b
	if b.NextUpdate != nil {
		c.UpdateC = b.NextUpdate.Commitment(alg)
	}
	if b.NextRecov != nil {
		c.RecoveryC = b.NextRecov.Commitment(alg)
	}
	c.Outcome = outFull

	switch {
	case class == "valid" || class == "signed-by-uncommitted-key":
		if typ != "create" && rapid.IntRange(0, 5).Draw(t, "signedPayloadSpelled") == 0 {
			// what is signed is the payload's bytes, whatever JSON text they are: the signed data with insignificant white space
			// in and around it (a document written by an encoder ends in a line break)
			ws := func(l string) string { return rapid.SampledFrom([]string{"", "", "\n", " ", "\r\n", "\t "}).Draw(t, l) }
			canon := refJCS(b.Signed) // numbers stay as they are: the time bounds are integers and have to be spelled as such
			b.signText([]byte(ws("wsBefore") + "{" + ws("wsInside") + canon[1:len(canon)-1] + ws("wsInsideEnd") + "}" + ws("wsAfter")))
			b.assemble()
		}
		c.Bytes = b.bytes()
	case class == "patches-inapplicable":
		// the patch that does not apply stands behind, in front of or between the others, also in front of a replace (which
		// discards the document, not the failure)
		ps := append([]interface{}{}, b.Delta["patches"].([]interface{})...)
		at := rapid.IntRange(0, len(ps)).Draw(t, "inapplicableAt")
		ps = append(ps[:at:at], append([]interface{}{inapplicablePatch}, ps[at:]...)...)
		if rapid.IntRange(0, 2).Draw(t, "replaceBehind") == 0 {
			ps = append(ps, map[string]interface{}{"action": "replace", "document": map[string]interface{}{"publicKeys": []interface{}{genDocKey(t, "after-failure", true)}}})
		}
		b.Delta["patches"] = ps
		h := refHash(b.Delta, alg)
		if typ == "create" {
			b.SuffixData["deltaHash"] = h
		} else {
			b.Signed["deltaHash"] = h
			b.sign()
		}
		b.assemble()
		c.Bytes = b.bytes()
		c.Outcome = outNoDoc
	case isDeltaProblem(class):
		applyDeltaProblem(t, b, class, p)
		c.Bytes = b.bytes()
		if typ == "update" {
			c.Outcome = outRefused
		} else {
			c.Outcome = outNoDelta
		}
	case typ == "create":
		c.Outcome = outRefused
		switch class {
		case "not-json":
			raw := b.bytes()
			c.Bytes = raw[:len(raw)/2]
		case "missing-suffix-data":
			delete(b.Req, "suffixData")
			c.Bytes = b.bytes()
		case "recovery-commitment-bad":
			b.SuffixData["recoveryCommitment"] = rapid.SampledFrom([]string{"", "abc", strings.Repeat("E", 120), b64(refMultihashBytes(17, make([]byte, 20)))}).Draw(t, "badCommitment")
			b.assemble()
			c.Bytes = b.bytes()
		case "delta-hash-malformed":
			b.SuffixData["deltaHash"] = rapid.SampledFrom([]string{"", "abc", strings.Repeat("E", 120)}).Draw(t, "badHash")
			b.assemble()
			c.Bytes = b.bytes()
		case "typed-as-other":
			// a well-formed update request anchored as a create
			k := genKey(t, "otherTypeKey")
			u := newUpdate(alg, "suffix", k, otherKey(t, k), c.Patches, 0, 0)
			c.Bytes = u.bytes()
		default:
			panic("create class " + class)
		}
	default:
		c.Outcome = outRefused
		switch class {
		case "signed-deltahash-malformed":
			b.Signed["deltaHash"] = rapid.SampledFrom([]string{"", "abc", strings.Repeat("E", 120)}).Draw(t, "badHash")
			b.sign()
			b.assemble()
			c.Bytes = b.bytes()
		case "recovery-commitment-malformed":
			b.Signed["recoveryCommitment"] = rapid.SampledFrom([]string{"", "abc", strings.Repeat("E", 120)}).Draw(t, "badCommitment")
			b.sign()
			b.assemble()
			c.Bytes = b.bytes()
		case "next-recovery-is-current-key":
			b.Signed["recoveryCommitment"] = b.SignKey.Commitment(alg)
			b.sign()
			b.assemble()
			c.Bytes = b.bytes()
		case "suffix-mismatch":
			b.Signed["didSuffix"] = b.Suffix + "x"
			b.sign()
			b.assemble()
			c.Bytes = b.bytes()
		default:
			c.Bytes = tamperSigned(t, b, class, p)
		}
	}
	// delta size by my own measure: valid patches may simply be too large for the configured limit
	if (c.Outcome == outFull || c.Outcome == outNoDoc) && b.Delta != nil && len(refJCS(b.Delta)) > int(p.MaxDeltaSize) {
		c.Class += "+delta-too-large-naturally"
		if typ == "update" {
			c.Outcome = outRefused
		} else {
			c.Outcome = outNoDelta
		}
	}
	return c
}

func isDeltaProblem(class string) bool {
	for _, d := range deltaProblems {
		if d == class {
			return true
		}
	}
	return false
}
