package harness

// Per-property bookkeeping: evaluations, class histogram, distinct non-trivial cases, samples, exclusions.
// Every test binary run writes one JSON file per property into $VERIF_STATS_DIR (merged by bin/check).

import (
	"encoding/json"
	"flag"
	"fmt"
	"hash/fnv"
	"os"
	"path/filepath"
	"sort"
	"strconv"
	"sync"
	"testing"

	"pgregory.net/rapid"
)

const maxHashes = 4_000_000

type propStats struct {
	mu        sync.Mutex
	Prop      string            `json:"property_id"`
	Evals     int64             `json:"evaluations"`
	Classes   map[string]int64  `json:"classes"`
	Excluded  map[string]int64  `json:"excluded"`
	Requested map[string]int64  `json:"requested"`
	Ran       map[string]int64  `json:"ran"`
	Samples   []json.RawMessage `json:"samples"`
	Hashes    []uint64          `json:"nontrivial_hashes"`
	Notes     []string          `json:"notes"`
	hashSet   map[uint64]struct{}
	sampleFor map[string]int
}

var (
	statsMu  sync.Mutex
	allStats = map[string]*propStats{}
)

func statsFor(prop string) *propStats {
	statsMu.Lock()
	defer statsMu.Unlock()
	s, ok := allStats[prop]
	if !ok {
		s = &propStats{Prop: prop, Classes: map[string]int64{}, Excluded: map[string]int64{},
			Requested: map[string]int64{}, Ran: map[string]int64{},
			hashSet: map[uint64]struct{}{}, sampleFor: map[string]int{}}
		allStats[prop] = s
	}
	return s
}

func hash64(s string) uint64 {
	h := fnv.New64a()
	_, _ = h.Write([]byte(s))
	return h.Sum64()
}

// Case records one evaluated case. desc is a canonical description of the case used for distinctness
// (only hashed when nontrivial). labels feed the class histogram.
func (s *propStats) Case(nontrivial bool, desc string, labels ...string) {
	s.mu.Lock()
	defer s.mu.Unlock()
	s.Evals++
	for _, l := range labels {
		s.Classes[l]++
	}
	if nontrivial {
		s.Classes["nontrivial"]++
		if len(s.hashSet) < maxHashes {
			s.hashSet[hash64(desc)] = struct{}{}
		}
	}
}

// Label adds to the class histogram without counting an evaluation.
func (s *propStats) Label(labels ...string) {
	s.mu.Lock()
	defer s.mu.Unlock()
	for _, l := range labels {
		s.Classes[l]++
	}
}

// Exclude counts a generated case that was left out of the assertion domain (with the reason).
func (s *propStats) Exclude(reason string) {
	s.mu.Lock()
	defer s.mu.Unlock()
	s.Excluded[reason]++
}

func (s *propStats) Note(n string) {
	s.mu.Lock()
	defer s.mu.Unlock()
	for _, o := range s.Notes {
		if o == n {
			return
		}
	}
	s.Notes = append(s.Notes, n)
}

// Sample keeps up to perKind samples per kind (a few real cases written out).
func (s *propStats) Sample(kind string, perKind int, v func() interface{}) {
	s.mu.Lock()
	defer s.mu.Unlock()
	if s.sampleFor[kind] >= perKind || len(s.Samples) >= 40 {
		return
	}
	s.sampleFor[kind]++
	b, err := json.Marshal(map[string]interface{}{"kind": kind, "case": v()})
	if err != nil {
		b, _ = json.Marshal(map[string]interface{}{"kind": kind, "case": fmt.Sprintf("%v", v())})
	}
	if len(b) > 6000 {
		b, _ = json.Marshal(map[string]interface{}{"kind": kind, "case_truncated": string(b[:6000])})
	}
	s.Samples = append(s.Samples, b)
}

func writeAllStats() {
	dir := os.Getenv("VERIF_STATS_DIR")
	if dir == "" {
		return
	}
	_ = os.MkdirAll(dir, 0o755)
	statsMu.Lock()
	defer statsMu.Unlock()
	for id, s := range allStats {
		s.mu.Lock()
		s.Hashes = s.Hashes[:0]
		for h := range s.hashSet {
			s.Hashes = append(s.Hashes, h)
		}
		sort.Slice(s.Hashes, func(i, j int) bool { return s.Hashes[i] < s.Hashes[j] })
		b, err := json.Marshal(s)
		s.mu.Unlock()
		if err != nil {
			fmt.Fprintf(os.Stderr, "VERIF-STATS-ERROR %s %v\n", id, err)
			continue
		}
		name := filepath.Join(dir, fmt.Sprintf("%s.%d.json", id, os.Getpid()))
		if err := os.WriteFile(name, b, 0o644); err != nil {
			fmt.Fprintf(os.Stderr, "VERIF-STATS-ERROR %s %v\n", id, err)
		}
	}
}

func TestMain(m *testing.M) {
	flag.Parse()
	initJournal()
	code := m.Run()
	writeAllStats()
	os.Exit(code)
}

// ---- tiers, scale, rapid driver ----

func tier() string {
	if os.Getenv("VERIF_TIER") == "thorough" {
		return "thorough"
	}
	return "quick"
}

func thorough() bool { return tier() == "thorough" }

// scale multiplies the per-test base case counts (VERIF_SCALE, default 1).
func scale() float64 {
	if v := os.Getenv("VERIF_SCALE"); v != "" {
		if f, err := strconv.ParseFloat(v, 64); err == nil && f > 0 {
			return f
		}
	}
	return 1
}

func scaled(base int) int {
	n := int(float64(base) * scale())
	if n < 1 {
		n = 1
	}
	return n
}

// shard returns (index, count) of this process among parallel shards of a thorough run.
func shard() (int, int) {
	i, _ := strconv.Atoi(os.Getenv("VERIF_SHARD"))
	n, _ := strconv.Atoi(os.Getenv("VERIF_SHARDS"))
	if n < 1 {
		n = 1
	}
	return i, n
}

// check runs a rapid property with `base` cases (scaled) and records requested/ran counts so that the driver can
// tell a complete run from one cut short.
func check(t *testing.T, prop string, base int, f func(*rapid.T)) {
	t.Helper()
	n := scaled(base)
	if err := flag.Set("rapid.checks", strconv.Itoa(n)); err != nil {
		t.Fatalf("set rapid.checks: %v", err)
	}
	s := statsFor(prop)
	s.mu.Lock()
	s.Requested[t.Name()] += int64(n)
	s.mu.Unlock()
	var ran int64
	var mu sync.Mutex
	rapid.Check(t, func(rt *rapid.T) {
		f(rt)
		mu.Lock()
		ran++
		mu.Unlock()
	})
	s.mu.Lock()
	s.Ran[t.Name()] += ran
	s.mu.Unlock()
}

// ---- in-flight journal (process-killing inputs) ----

var journalFile *os.File

func initJournal() {
	p := os.Getenv("VERIF_JOURNAL")
	if p == "" {
		return
	}
	f, err := os.OpenFile(p, os.O_CREATE|os.O_RDWR|os.O_TRUNC, 0o644)
	if err == nil {
		journalFile = f
	}
}

// journal records the call about to be made; if the process dies the driver promotes it to a replay file.
func journal(entry string, input []byte) {
	if journalFile == nil {
		return
	}
	b, _ := json.Marshal(map[string]interface{}{"entry": entry, "input": string(input)})
	_, _ = journalFile.WriteAt(append(b, make([]byte, 0)...), 0)
	_ = journalFile.Truncate(int64(len(b)))
}

// ---- known findings ----
// A genuine defect that is recorded rather than repaired is listed in /verif/known_findings.json with status "open" and
// a signature the harness recognises. A violating case that matches the signature of an open finding is counted and
// skipped (so that the search goes on behind it); any other violation of the same property is reported as usual, and
// so is this one as soon as the entry is no longer listed as open.

var knownOnce sync.Once
var knownOpenIDs map[string]bool

func knownOpen(id string) bool {
	knownOnce.Do(func() {
		knownOpenIDs = map[string]bool{}
		b, err := os.ReadFile(os.Getenv("VERIF_KNOWN"))
		if err != nil {
			return
		}
		var f struct {
			Findings []struct {
				ID     string `json:"id"`
				Status string `json:"status"`
			} `json:"findings"`
		}
		if json.Unmarshal(b, &f) == nil {
			for _, x := range f.Findings {
				if x.Status == "open" {
					knownOpenIDs[x.ID] = true
				}
			}
		}
	})
	return knownOpenIDs[id]
}

// Known counts a case that reproduces the open finding id.
func (s *propStats) Known(id, what string) {
	s.Exclude("known finding " + id + " reproduced (" + what + ")")
}
