package harness

// C12 — applying operations and patches never mutates inputs; failures are atomic.
// Oracle: invariant over the call history — deep snapshots (independent deep copy + canonical JSON) of every input and of
// every earlier result are compared before/after each call and again at the end of the history; error => nil result.

import (
	"encoding/json"
	"fmt"
	"reflect"
	"testing"

	"github.com/trustbloc/sidetree-go/pkg/document"
	"github.com/trustbloc/sidetree-go/pkg/patch"
	"github.com/trustbloc/sidetree-go/pkg/versions/1_0/doccomposer"
	"pgregory.net/rapid"
)

// deepCopyAny copies maps / slices of the dynamic types the library uses (independent of encoding/json).
func deepCopyAny(v interface{}) interface{} {
	if v == nil {
		return nil
	}
	rv := reflect.ValueOf(v)
	switch rv.Kind() {
	case reflect.Map:
		if rv.IsNil() {
			return v
		}
		out := reflect.MakeMapWithSize(rv.Type(), rv.Len())
		it := rv.MapRange()
		for it.Next() {
			c := deepCopyAny(it.Value().Interface())
			if c == nil {
				out.SetMapIndex(it.Key(), reflect.Zero(rv.Type().Elem()))
			} else {
				out.SetMapIndex(it.Key(), reflect.ValueOf(c))
			}
		}
		return out.Interface()
	case reflect.Slice:
		if rv.IsNil() {
			return v
		}
		if rv.Type().Elem().Kind() == reflect.Uint8 {
			out := reflect.MakeSlice(rv.Type(), rv.Len(), rv.Len())
			reflect.Copy(out, rv)
			return out.Interface()
		}
		out := reflect.MakeSlice(rv.Type(), rv.Len(), rv.Len())
		for i := 0; i < rv.Len(); i++ {
			c := deepCopyAny(rv.Index(i).Interface())
			if c != nil {
				out.Index(i).Set(reflect.ValueOf(c))
			}
		}
		return out.Interface()
	case reflect.Ptr:
		if rv.IsNil() {
			return v
		}
		out := reflect.New(rv.Type().Elem())
		c := deepCopyAny(rv.Elem().Interface())
		out.Elem().Set(reflect.ValueOf(c))
		return out.Interface()
	case reflect.Struct:
		out := reflect.New(rv.Type()).Elem()
		for i := 0; i < rv.NumField(); i++ {
			if !out.Field(i).CanSet() {
				continue
			}
			f := rv.Field(i)
			if !f.CanInterface() {
				continue
			}
			c := deepCopyAny(f.Interface())
			if c != nil {
				out.Field(i).Set(reflect.ValueOf(c))
			}
		}
		return out.Interface()
	default:
		return v
	}
}

type snapshot struct {
	what string
	live interface{}
	copy interface{}
	json string
}

func snap(what string, v interface{}) snapshot {
	b, err := json.Marshal(v)
	if err != nil {
		b = []byte("ERR:" + err.Error())
	}
	return snapshot{what: what, live: v, copy: deepCopyAny(v), json: string(b)}
}

func (s snapshot) verify() error {
	b, err := json.Marshal(s.live)
	if err != nil {
		b = []byte("ERR:" + err.Error())
	}
	if string(b) != s.json {
		return fmt.Errorf("%s changed:\n before %s\n after  %s", s.what, s.json, b)
	}
	if !reflect.DeepEqual(s.live, s.copy) {
		return fmt.Errorf("%s changed (deep comparison; JSON %s)", s.what, s.json)
	}
	return nil
}

func TestC12_Patches(t *testing.T) {
	st := statsFor("C12")
	composer := doccomposer.New()
	check(t, "C12", 2500, func(t *rapid.T) {
		start := genDocument(t, false)
		var snaps []snapshot
		cur := libDoc(start)
		ref := deepCopyValue(start).(map[string]interface{})
		steps := rapid.IntRange(1, 4).Draw(t, "calls")
		labels := []string{}
		nontrivial := false
		for s := 0; s < steps; s++ {
			n := rapid.IntRange(1, 5).Draw(t, "npatches")
			failAt := -1
			if rapid.IntRange(0, 2).Draw(t, "failing") == 0 {
				failAt = rapid.IntRange(0, n-1).Draw(t, "failAt")
			}
			var vals []interface{}
			work := deepCopyValue(ref).(map[string]interface{})
			refFails := false
			replacedExisting := false
			for i := 0; i < n; i++ {
				var p map[string]interface{}
				if i == failAt {
					// an ietf-json-patch that validates but does not apply (RFC 6902: missing target / failing test)
					p = map[string]interface{}{"action": "ietf-json-patch", "patches": []interface{}{
						map[string]interface{}{"op": "add", "path": "/ok" + itoa(i), "value": "v"},
						map[string]interface{}{"op": "add", "path": "/arr" + itoa(i), "value": []interface{}{"a", "b"}},
						rapid.SampledFrom([]interface{}{
							// locations in an existing array that do not exist
							map[string]interface{}{"op": "replace", "path": "/arr" + itoa(i) + "/-1", "value": "x"},
							map[string]interface{}{"op": "test", "path": "/arr" + itoa(i) + "/-1", "value": "b"},
							map[string]interface{}{"op": "remove", "path": "/arr" + itoa(i) + "/-1"},
							map[string]interface{}{"op": "replace", "path": "/arr" + itoa(i) + "/2", "value": "x"},
							map[string]interface{}{"op": "test", "path": "/arr" + itoa(i) + "/-", "value": "b"},
							map[string]interface{}{"op": "remove", "path": "/arr" + itoa(i) + "/5"},
							map[string]interface{}{"op": "add", "path": "/arr" + itoa(i) + "/7", "value": "x"},
							map[string]interface{}{"op": "move", "from": "/arr" + itoa(i) + "/-1", "path": "/x"},
							map[string]interface{}{"op": "copy", "from": "/arr" + itoa(i) + "/x", "path": "/x"},
							map[string]interface{}{"op": "replace", "path": "/arr" + itoa(i) + "/99999999999999999999", "value": "x"},
							map[string]interface{}{"op": "move", "from": "/nope", "path": "/nope"},
							map[string]interface{}{"op": "move", "from": "/arr" + itoa(i) + "/7", "path": "/arr" + itoa(i) + "/7"},
							map[string]interface{}{"op": "move", "from": "/arr" + itoa(i) + "/01", "path": "/arr" + itoa(i) + "/01"},
							map[string]interface{}{"op": "copy", "from": "/nope/x", "path": "/nope/x"},
							map[string]interface{}{"op": "remove", "path": "/missing/member"},
							map[string]interface{}{"op": "test", "path": "/ok" + itoa(i), "value": "other"},
							map[string]interface{}{"op": "replace", "path": "/nothere/x", "value": 1.0},
							map[string]interface{}{"op": "move", "from": "/nope", "path": "/x"},
							map[string]interface{}{"op": "copy", "from": "/nope/1", "path": "/x"},
						}).Draw(t, "failingOp")}}
				} else {
					action := rapid.SampledFrom(allActions).Draw(t, "action")
					if action == "ietf-json-patch" {
						p, _ = genValidIetfPatch(t, work, st)
						if p == nil {
							p = genDedicatedPatch(t, "add-public-keys", work, false)
						}
					} else {
						p = genDedicatedPatch(t, action, work, false)
					}
					if a := p["action"]; a == "add-public-keys" || a == "add-services" {
						member, listKey := "publicKey", "publicKeys"
						if a == "add-services" {
							member, listKey = "service", "services"
						}
						ex := map[string]bool{}
						for _, id := range idsOf(work[member]) {
							ex[id] = true
						}
						for _, id := range idsOf(p[listKey]) {
							if ex[id] {
								replacedExisting = true
							}
						}
					}
				}
				vals = append(vals, p)
				if !refFails {
					next, err := refComposeOne(work, p)
					if err != nil {
						refFails = true
					} else {
						work = next
					}
				}
			}
			lps, err := libPatches(vals)
			if err != nil {
				t.Fatalf("C12 harness: %v", err)
			}
			if rapid.Bool().Draw(t, "plainDecoding") {
				// decoded the way the parser decodes the patches of a delta (plain JSON decoding into the patch type)
				lps = nil
				if err := json.Unmarshal([]byte(refJCS(vals)), &lps); err != nil {
					t.Fatalf("C12 harness: %v", err)
				}
			}
			in := snap(fmt.Sprintf("input document of call %d", s), cur)
			var psnaps []snapshot
			for i, lp := range lps {
				psnaps = append(psnaps, snap(fmt.Sprintf("patch %d of call %d", i, s), lp))
			}
			journal("ApplyPatches", []byte(refJCS(map[string]interface{}{"doc": mustJSON(in.json), "patches": vals})))
			res, aerr := composer.ApplyPatches(cur, lps)
			if aerr != nil && res != nil {
				t.Fatalf("C12 failing patch list returned a partial document: %v, %s", aerr, docCanon(res))
			}
			if aerr == nil && res == nil {
				t.Fatalf("C12 ApplyPatches returned neither document nor error")
			}
			if refFails && aerr == nil && failAt >= 0 {
				t.Fatalf("C12 patch list with an inapplicable operation at patch %d succeeded: %s -> %s", failAt, refJCS(vals), docCanon(res))
			}
			if !refFails && aerr != nil {
				t.Fatalf("C12 applicable patch list failed: %v\n doc %s\n patches %s", aerr, in.json, refJCS(vals))
			}
			if err := in.verify(); err != nil {
				t.Fatalf("C12 ApplyPatches mutated its input: %v\n patches %s", err, refJCS(vals))
			}
			for _, ps := range psnaps {
				if err := ps.verify(); err != nil {
					t.Fatalf("C12 ApplyPatches mutated a patch value: %v", err)
				}
			}
			snaps = append(snaps, in)
			snaps = append(snaps, psnaps...)
			if aerr != nil {
				labels = append(labels, "call-failed-at-"+itoa(failAt))
				if failAt >= 1 && len(start) > 0 {
					nontrivial = true
				}
				// atomic also for whoever calls next: nothing of the abandoned working copy may show up in an unrelated result
				if rapid.Bool().Draw(t, "probeAfterFailure") {
					probe := map[string]interface{}{}
					if rapid.Bool().Draw(t, "probeWithID") {
						probe["id"] = "did:other:probe"
					}
					pp := map[string]interface{}{"action": "add-also-known-as", "uris": []interface{}{"https://probe.example/" + itoa(s)}}
					want, _ := refComposeOne(deepCopyValue(probe).(map[string]interface{}), pp)
					plps, err := libPatches([]interface{}{pp})
					if err != nil {
						t.Fatalf("C12 harness: %v", err)
					}
					got, err := composer.ApplyPatches(libDoc(probe), plps)
					if err != nil || docCanon(got) != refJCS(normalizeDoc(want)) {
						t.Fatalf("C12 a call after a failed patch list shows traces of it: %v\n failed call on %s with %s\n then %s + %s\n got  %s\n want %s",
							err, in.json, refJCS(vals), refJCS(probe), refJCS(pp), docCanon(got), refJCS(normalizeDoc(want)))
					}
					labels = append(labels, "probe-after-failure")
				}
				continue // previous document stays in force
			}
			labels = append(labels, "call-ok")
			if g, w := docCanon(res), refJCS(normalizeDoc(work)); g != w {
				t.Fatalf("C12 result of an applicable patch list differs from the reference (calls so far %v)\n doc %s\n patches %s\n got  %s\n want %s", labels, in.json, refJCS(vals), g, w)
			}
			if replacedExisting && len(start) > 0 {
				nontrivial = true
			}
			cur = res
			ref = work
		}
		snaps = append(snaps, snap("final document", cur))
		// earlier versions held by the caller are still what they were
		for _, s := range snaps {
			if err := s.verify(); err != nil {
				t.Fatalf("C12 a later call corrupted an earlier value: %v", err)
			}
		}
		st.Case(nontrivial, refJCS(start)+fmt.Sprint(labels), append(labels, "patch-history")...)
		st.Sample("patch-history", 2, func() interface{} { return map[string]interface{}{"start": start, "calls": labels} })
	})
}

var _ = patch.Replace
var _ document.Document
