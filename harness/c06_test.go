package harness

// C06 — model hashes are content addresses.
// Oracle: refHash (own JCS + SHA-2 + multihash framing + base64url); verdicts known by construction
// (re-spelling => equal, single-point modification => different, malformed => rejected).

import (
	"encoding/base64"
	"strconv"
	"strings"
	"testing"

	"github.com/trustbloc/sidetree-go/pkg/docutil"
	"github.com/trustbloc/sidetree-go/pkg/hashing"
	"pgregory.net/rapid"
)

var unsupportedCodes = []uint{0, 1, 17, 20, 21, 22, 23, 27, 86, 0xb220, 0xb240, 0x1012, 255, 1 << 20, 1<<31 - 1}

func TestC06_ContentAddress(t *testing.T) {
	st := statsFor("C06")
	check(t, "C06", 5000, func(t *rapid.T) {
		vi := &valueInfo{}
		v := genTopLevel(t, 4, 5, vi)
		alg := rapid.SampledFrom([]uint{18, 19}).Draw(t, "alg")
		want := refHash(v, alg)
		labels := []string{"alg-" + itoa(int(alg))}

		got, err := hashing.CalculateModelMultihash(v, alg)
		if err != nil || got != want {
			t.Fatalf("C06 CalculateModelMultihash(value,%d) = %q (%v), reference %q; canonical=%s", alg, got, err, want, refJCS(v))
		}
		sp := spell(t, v, 1)
		got, err = hashing.CalculateModelMultihash([]byte(sp), alg)
		if err != nil || got != want {
			t.Fatalf("C06 CalculateModelMultihash(bytes %q,%d) = %q (%v), reference %q", sp, alg, got, err, want)
		}
		if strings.ContainsAny(got, "=+/") {
			t.Fatalf("C06 hash is not unpadded base64url: %q", got)
		}

		// the prefix is reported faithfully
		code, err := hashing.GetMultihashCode(want)
		if err != nil || code != uint64(alg) {
			t.Fatalf("C06 GetMultihashCode(%q) = %d (%v), want %d", want, code, err, alg)
		}
		codes := rapid.SliceOfN(rapid.SampledFrom([]uint{18, 19, 17, 20, 22, 0}), 0, 4).Draw(t, "codes")
		wantIn := false
		for _, c := range codes {
			if c == alg {
				wantIn = true
			}
		}
		if in := hashing.IsComputedUsingMultihashAlgorithms(want, codes); in != wantIn {
			t.Fatalf("C06 IsComputedUsingMultihashAlgorithms(%q,%v) = %v, want %v", want, codes, in, wantIn)
		}

		// namespaced id
		ns := rapid.SampledFrom([]string{"did:sidetree", "did:ion", "did:x:y", ""}).Draw(t, "ns")
		id, err := docutil.CalculateID(ns, v, alg)
		if err != nil || id != ns+":"+want {
			t.Fatalf("C06 CalculateID = %q (%v) want %q", id, err, ns+":"+want)
		}

		// validation: equal value in another spelling => accepted
		if err := hashing.IsValidModelMultihash([]byte(sp), want); err != nil {
			t.Fatalf("C06 IsValidModelMultihash rejected a re-spelling of the hashed value: %v\n value %q", err, sp)
		}
		if err := hashing.IsValidModelMultihash(v, want); err != nil {
			t.Fatalf("C06 IsValidModelMultihash rejected the hashed value: %v", err)
		}
		// a JSON string that spells the value is another value than the value (the canonical form is defined for containers,
		// so the library may also answer with an error)
		if err := hashing.IsValidModelMultihash(sp, want); err == nil {
			t.Fatalf("C06 IsValidModelMultihash accepted the JSON *string* %q against the hash of the value it spells", sp)
		}
		if h, err := hashing.CalculateModelMultihash(refJCS(v), alg); err == nil && h == want {
			t.Fatalf("C06 the JSON string %q hashes like the value it spells", refJCS(v))
		}
		// validation: single-point modification => rejected
		v2, how := mutateValue(t, v)
		if refJCS(v2) == refJCS(v) {
			t.Fatalf("harness: mutation %s did not change the value", how)
		}
		if err := hashing.IsValidModelMultihash(v2, want); err == nil {
			t.Fatalf("C06 IsValidModelMultihash accepted a modified value (%s): %s vs %s", how, refJCS(v2), refJCS(v))
		}
		labels = append(labels, "mut-"+how)

		// the algorithm is taken from the hash's own prefix: a hash computed with the other algorithm validates as well,
		// and a digest labelled with the wrong code does not
		other := uint(37) - alg
		if err := hashing.IsValidModelMultihash(v, refHash(v, other)); err != nil {
			t.Fatalf("C06 hash computed with %d was rejected: %v", other, err)
		}
		mislabelled := b64(refMultihashBytes(other, refDigest(alg, []byte(refJCS(v)))))
		if err := hashing.IsValidModelMultihash(v, mislabelled); err == nil {
			t.Fatalf("C06 digest of algorithm %d labelled as %d was accepted", alg, other)
		}

		// unsupported algorithm codes
		uc := rapid.SampledFrom(unsupportedCodes).Draw(t, "unsupported")
		if h, err := hashing.CalculateModelMultihash(v, uc); err == nil {
			t.Fatalf("C06 CalculateModelMultihash accepted unsupported code %d -> %q", uc, h)
		}
		if _, err := docutil.CalculateID(ns, v, uc); err == nil {
			t.Fatalf("C06 CalculateID accepted unsupported code %d", uc)
		}
		foreign := b64(refMultihashBytes(uc, refDigest(18, []byte(refJCS(v)))))
		if err := hashing.IsValidModelMultihash(v, foreign); err == nil {
			t.Fatalf("C06 IsValidModelMultihash accepted a hash with unsupported code %d", uc)
		}

		// malformed encodings
		raw := refMultihashBytes(alg, refDigest(alg, []byte(refJCS(v))))
		kind := rapid.IntRange(0, 10).Draw(t, "malformed")
		var bad string
		strict := true // must GetMultihashCode / IsComputedUsing reject it as well?
		switch kind {
		case 0:
			bad = ""
		case 1: // truncated digest
			bad = b64(raw[:len(raw)-rapid.IntRange(1, len(raw)-1).Draw(t, "cut")])
		case 2: // extended digest
			bad = b64(append(append([]byte{}, raw...), rapid.SliceOfN(rapid.Byte(), 1, 5).Draw(t, "extra")...))
		case 3: // padding
			bad = base64.URLEncoding.EncodeToString(raw)
			if !strings.HasSuffix(bad, "=") {
				bad += "="
			}
		case 4: // characters outside the url-safe alphabet
			pos := rapid.IntRange(0, len(want)-1).Draw(t, "pos")
			bad = want[:pos] + rapid.SampledFrom([]string{"+", "/", " ", "*", ".", "\n", "é"}).Draw(t, "ch") + want[pos+1:]
		case 5: // wrong length field (longer than the data)
			r2 := append([]byte{}, raw...)
			r2[len(uvarint(uint64(alg)))]++
			bad = b64(r2)
		case 6: // wrong length field (shorter than the data)
			r2 := append([]byte{}, raw...)
			r2[len(uvarint(uint64(alg)))]--
			bad = b64(r2)
		case 7: // one character of the encoded digest changed: well-formed but for other content
			pos := rapid.IntRange(4, len(want)-2).Draw(t, "pos")
			c := want[pos]
			nc := byte('A')
			if c == 'A' {
				nc = 'B'
			}
			bad = want[:pos] + string(nc) + want[pos+1:]
			strict = false
		case 10: // digest shortened consistently (length field and digest agree): well formed, but not the hash of the value
			k := rapid.IntRange(0, len(refDigest(alg, nil))-1).Draw(t, "shortLen")
			bad = b64(refMultihashBytes(alg, refDigest(alg, []byte(refJCS(v)))[:k]))
			strict = false
		case 9: // line breaks inside or after the encoding (Go's base64 decoder skips CR and LF silently)
			pos := rapid.IntRange(0, len(want)).Draw(t, "nlpos")
			bad = want[:pos] + rapid.SampledFrom([]string{"\n", "\r", "\r\n", "\n\n"}).Draw(t, "nl") + want[pos:]
		default: // non-canonical final character (same bytes, different string)
			bad = nonCanonicalTail(want)
			strict = false
			if bad == want {
				kind = 0
				bad = ""
				strict = true
			}
		}
		labels = append(labels, "malformed-"+itoa(kind))
		if err := hashing.IsValidModelMultihash(v, bad); err == nil {
			t.Fatalf("C06 IsValidModelMultihash accepted malformed/foreign hash %q (kind %d) for hash %q", bad, kind, want)
		}
		if strict {
			if c, err := hashing.GetMultihashCode(bad); err == nil {
				t.Fatalf("C06 GetMultihashCode accepted malformed %q (kind %d) -> %d", bad, kind, c)
			}
			if hashing.IsComputedUsingMultihashAlgorithms(bad, []uint{18, 19}) {
				t.Fatalf("C06 IsComputedUsingMultihashAlgorithms accepted malformed %q (kind %d)", bad, kind)
			}
		}
		st.Case(true, want+"|"+how+"|"+itoa(kind), labels...)
		st.Sample("case", 3, func() interface{} {
			return map[string]interface{}{"canonical": clip(refJCS(v), 300), "alg": alg, "hash": want, "modified": clip(refJCS(v2), 300), "modification": how, "malformed": bad}
		})
	})
}

// nonCanonicalTail changes unused trailing bits of the last base64 character (decodes to the same bytes).
func nonCanonicalTail(s string) string {
	const alpha = "ABCDEFGHIJKLMNOPQRSTUVWXYZabcdefghijklmnopqrstuvwxyz0123456789-_"
	if len(s)%4 == 0 || len(s) == 0 {
		return s
	}
	i := strings.IndexByte(alpha, s[len(s)-1])
	if i < 0 {
		return s
	}
	return s[:len(s)-1] + string(alpha[i^1])
}

func itoa(i int) string { return strconv.Itoa(i) }

func FuzzC06(f *testing.F) {
	for _, s := range []string{"", "EiA", "EiDKIkwwX5-h1w9MqL9BdXc9J_Zk-vPJqBBq1cpSKzKzgw", "ExQ", "EiDKIkwwX5-h1w9MqL9BdXc9J_Zk-vPJqBBq1cpSKzKzgw=", "gICAgICAgICAgAE"} {
		f.Add(s, []byte(`{"a":1}`))
	}
	f.Fuzz(func(t *testing.T, h string, data []byte) {
		if len(data) > 1<<14 || len(h) > 1<<10 {
			return
		}
		// no panic on any of the string-taking functions; agreement with the reference on well-formed input
		code, cerr := hashing.GetMultihashCode(h)
		in := hashing.IsComputedUsingMultihashAlgorithms(h, []uint{18, 19})
		if cerr != nil && in {
			t.Fatalf("C06 fuzz: %q has no code but is 'computed using' 18/19", h)
		}
		if cerr == nil && in != (code == 18 || code == 19) {
			t.Fatalf("C06 fuzz: %q code %d but computed-using=%v", h, code, in)
		}
		verr := hashing.IsValidModelMultihash(data, h)
		v, derr := decodeIJSON(data)
		if derr != nil || depth(v) > 100 {
			return
		}
		ok := h == refHash(v, 18) || h == refHash(v, 19)
		if ok != (verr == nil) {
			t.Fatalf("C06 fuzz: IsValidModelMultihash(%q,%q) = %v, reference says valid=%v", data, h, verr, ok)
		}
	})
}
