package harness

// C15 — JWS signatures verify iff produced by the matching key over the same bytes.
// Oracles: round trip through the library signers; differential against the Go standard library
// (crypto/ecdsa, crypto/ed25519 over the harness' own signing input); by-construction tamper verdicts.

import (
	"bytes"
	"crypto/ecdsa"
	"crypto/ed25519"
	"encoding/base64"
	"encoding/json"
	"fmt"
	"math/big"
	"strings"
	"sync"
	"testing"

	"github.com/trustbloc/sidetree-go/pkg/jws"
	"github.com/trustbloc/sidetree-go/pkg/jwsutil"
	"github.com/trustbloc/sidetree-go/pkg/util/ecsigner"
	"github.com/trustbloc/sidetree-go/pkg/util/edsigner"
	"github.com/trustbloc/sidetree-go/pkg/util/pubkey"
	"github.com/trustbloc/sidetree-go/pkg/util/signutil"
	"pgregory.net/rapid"
)

type libSigner interface {
	Sign(data []byte) ([]byte, error)
	Headers() jws.Headers
}

func libSignerFor(k *Key, alg, kid string) libSigner {
	if k.Type == ktEd25519 {
		return edsigner.New(k.Ed, alg, kid)
	}
	return ecsigner.New(k.EC, alg, kid)
}

// stdVerify verifies a raw signature over input with the standard library only.
func stdVerify(k *Key, input, sig []byte) bool {
	if k.Type == ktEd25519 {
		return ed25519.Verify(k.Ed.Public().(ed25519.PublicKey), input, sig)
	}
	w := k.Type.Width()
	if len(sig) != 2*w {
		return false
	}
	r := new(big.Int).SetBytes(sig[:w])
	s := new(big.Int).SetBytes(sig[w:])
	return ecdsa.Verify(&k.EC.PublicKey, k.Type.hash(input), r, s)
}

func splitCompact(c string) (h, p, s []byte, ok bool) {
	parts := strings.Split(c, ".")
	if len(parts) != 3 {
		return nil, nil, nil, false
	}
	var err error
	if h, err = base64.RawURLEncoding.DecodeString(parts[0]); err != nil {
		return nil, nil, nil, false
	}
	if p, err = base64.RawURLEncoding.DecodeString(parts[1]); err != nil {
		return nil, nil, nil, false
	}
	if s, err = base64.RawURLEncoding.DecodeString(parts[2]); err != nil {
		return nil, nil, nil, false
	}
	return h, p, s, true
}

func genPayload(t *rapid.T) []byte {
	switch rapid.IntRange(0, 3).Draw(t, "payloadKind") {
	case 0:
		return rapid.SliceOfN(rapid.Byte(), 1, 8).Draw(t, "payload")
	case 1:
		return rapid.SliceOfN(rapid.Byte(), 1, 300).Draw(t, "payload")
	case 2:
		return rapid.SliceOfN(rapid.Byte(), 1000, 4096).Draw(t, "payload")
	default:
		return []byte(refJCS(genObject(t, 0, 2, 3, &valueInfo{})))
	}
}

func otherKey(t *rapid.T, k *Key) *Key {
	for i := 0; ; i++ {
		o := genKey(t, "other")
		if o.Name != k.Name {
			return o
		}
		if i > 10 {
			return pool()[(k.Type+1)%numKeyTypes][0]
		}
	}
}

func TestC15_SignVerify(t *testing.T) {
	st := statsFor("C15")
	check(t, "C15", 1200, func(t *rapid.T) {
		k := genKey(t, "key")
		payload := genPayload(t)
		kid := rapid.SampledFrom([]string{"", "key-1", "k", "did:example:123#k1"}).Draw(t, "kid")
		alg := k.Type.Alg()
		jwk := k.LibJWK()
		labels := []string{"type-" + k.Type.String()}
		nontrivial := k.Type == ktP521

		var compact string
		source := rapid.IntRange(0, 3).Draw(t, "source")
		if source == 0 {
			// signature made by the harness (fixed-width r||s, optionally with a leading zero half)
			want := rapid.IntRange(0, 2).Draw(t, "sigShape")
			hdr := map[string]interface{}{"alg": alg}
			if kid != "" {
				hdr["kid"] = kid
			}
			compact = signCompact(k, hdr, payload, want)
			labels = append(labels, "harness-signed")
			if want != 0 && k.Type != ktEd25519 {
				labels = append(labels, "leading-zero-half")
				nontrivial = true
			}
		} else {
			var err error
			compact, err = signutil.SignPayload(payload, libSignerFor(k, alg, kid))
			if err != nil {
				t.Fatalf("C15 SignPayload(%s): %v", k.Name, err)
			}
			labels = append(labels, "library-signed")
		}

		// round trip
		parsed, err := jwsutil.VerifyJWS(compact, jwk)
		if err != nil {
			t.Fatalf("C15 %s: signature does not verify under the matching key: %v\n jws=%s", k.Name, err, compact)
		}
		if !bytes.Equal(parsed.Payload, payload) {
			t.Fatalf("C15 %s: payload returned %x want %x", k.Name, parsed.Payload, payload)
		}
		// the matching public JWK as the library derives it from the key
		libJ, err := pubkey.GetPublicKeyJWK(k.Public())
		if err != nil {
			t.Fatalf("C15 GetPublicKeyJWK: %v", err)
		}
		if _, err := jwsutil.VerifyJWS(compact, libJ); err != nil {
			t.Fatalf("C15 %s: signature does not verify under the JWK the library derives from the key: %v\n jwk=%+v", k.Name, err, libJ)
		}
		// detached payload: header..signature verifies with the payload supplied separately, and only in that shape
		{
			segs := strings.Split(compact, ".")
			det := segs[0] + ".." + segs[2]
			pd, err := jwsutil.VerifyJWS(det, jwk, jwsutil.WithJWSDetachedPayload(payload))
			if err != nil || !bytes.Equal(pd.Payload, payload) {
				t.Fatalf("C15 %s: detached JWS does not verify with its payload: %v", k.Name, err)
			}
			for _, malformed := range []string{segs[0] + "..." + segs[2], segs[0] + "." + segs[1] + "." + segs[1] + "." + segs[2], segs[0] + "..AAAA." + segs[2],
				segs[0] + "...." + segs[2], segs[0] + "." + segs[2], segs[0] + "..%%." + segs[2]} {
				if _, err := jwsutil.VerifyJWS(malformed, jwk, jwsutil.WithJWSDetachedPayload(payload)); err == nil {
					t.Fatalf("C15 %s: malformed compact form verified with a detached payload: %s", k.Name, malformed)
				}
			}
			other := append(append([]byte{}, payload...), 'x')
			if _, err := jwsutil.VerifyJWS(det, jwk, jwsutil.WithJWSDetachedPayload(other)); err == nil {
				t.Fatalf("C15 %s: detached JWS verified with another payload", k.Name)
			}
			// a payload handed over for verification is the payload that is verified, also when the compact form carries one
			// itself: success means the signature covers the bytes that were handed over
			if rapid.Bool().Draw(t, "otherPayloadChangedInside") && len(other) > 1 {
				other = append([]byte{}, payload...)
				other[rapid.IntRange(0, len(other)-1).Draw(t, "detachedBytePos")] ^= byte(1 << rapid.IntRange(0, 7).Draw(t, "detachedBit"))
			}
			if got, err := jwsutil.VerifyJWS(compact, jwk, jwsutil.WithJWSDetachedPayload(other)); err == nil {
				t.Fatalf("C15 %s: verification of a payload other than the signed one succeeded (compact form with its payload attached, other payload handed over)\n signed  %x\n handed  %x\n returned %x", k.Name, payload, other, got.Payload)
			}
			// an empty detached payload is no detached payload: the attached one is verified and returned
			for _, none := range [][]byte{nil, {}, payload[:0]} {
				got, err := jwsutil.VerifyJWS(compact, jwk, jwsutil.WithJWSDetachedPayload(none))
				if err != nil || !bytes.Equal(got.Payload, payload) {
					t.Fatalf("C15 %s: valid JWS does not verify when an empty detached payload (nil: %v) is passed along: %v", k.Name, none == nil, err)
				}
			}
		}
		// differential: standard library over the transmitted signing input
		hb, pb, sb, ok := splitCompact(compact)
		if !ok || !bytes.Equal(pb, payload) {
			t.Fatalf("C15 %s: compact form does not carry the payload: %s", k.Name, compact)
		}
		if k.Type != ktEd25519 && len(sb) != 2*k.Type.Width() {
			t.Fatalf("C15 %s: signature length %d, want fixed width %d", k.Name, len(sb), 2*k.Type.Width())
		}
		input := compact[:strings.LastIndexByte(compact, '.')]
		if !stdVerify(k, []byte(input), sb) {
			t.Fatalf("C15 %s: library signature does not verify with the standard library over header.payload\n jws=%s", k.Name, compact)
		}
		var hdr map[string]interface{}
		if err := json.Unmarshal(hb, &hdr); err != nil || hdr["alg"] != alg || (kid != "" && hdr["kid"] != kid) || (kid == "" && len(hdr) != 1) {
			t.Fatalf("C15 %s: protected header %s", k.Name, hb)
		}
		if k.Type != ktEd25519 && (sb[0] == 0 || sb[k.Type.Width()] == 0) {
			labels = append(labels, "leading-zero-half")
			nontrivial = true
		}

		// tampering
		mut := rapid.IntRange(0, 13).Draw(t, "tamper")
		var bad string
		badKey := jwk
		label := ""
		seg := strings.Split(compact, ".")
		flip := func(b []byte) []byte {
			c := append([]byte{}, b...)
			i := rapid.IntRange(0, len(c)*8-1).Draw(t, "bit")
			c[i/8] ^= 1 << (i % 8)
			return c
		}
		switch mut {
		case 0:
			bad, label = seg[0]+"."+b64(flip(pb))+"."+seg[2], "payload-bit"
		case 1:
			bad, label = seg[0]+"."+seg[1]+"."+b64(flip(sb)), "signature-bit"
		case 2: // header content: alg value
			h2 := map[string]interface{}{}
			for kk, v := range hdr {
				h2[kk] = v
			}
			h2["alg"] = rapid.SampledFrom([]string{"ES256", "ES384", "ES512", "ES256K", "EdDSA", "none", "HS256"}).Filter(func(s string) bool { return s != alg }).Draw(t, "otherAlg")
			bad, label = b64([]byte(headerJSON(h2)))+"."+seg[1]+"."+seg[2], "header-alg"
		case 3: // header content: kid changed / added / removed
			h2 := map[string]interface{}{"alg": alg}
			if kid == "" {
				h2["kid"] = "x"
			} else if rapid.Bool().Draw(t, "dropKid") {
			} else {
				h2["kid"] = kid + "x"
			}
			bad, label = b64([]byte(headerJSON(h2)))+"."+seg[1]+"."+seg[2], "header-kid"
		case 4: // header content: added member
			h2 := map[string]interface{}{}
			for kk, v := range hdr {
				h2[kk] = v
			}
			h2[rapid.SampledFrom([]string{"typ", "cty", "crit", "x", "b64"}).Draw(t, "extraHeader")] = "JWT"
			bad, label = b64([]byte(headerJSON(h2)))+"."+seg[1]+"."+seg[2], "header-extra"
		case 5: // another key of the same or another type
			o := otherKey(t, k)
			bad, badKey, label = compact, o.LibJWK(), "other-key"
			if o.Type == k.Type {
				label = "other-key-same-type"
			}
			if k.Type != ktEd25519 && rapid.Bool().Draw(t, "mirroredKey") {
				// the other key with the same x: the mirrored point (x, p-y), whose private key is n-d. First the right key is
				// used once more, so that anything remembered about this x is the right key's.
				if _, err := jwsutil.VerifyJWS(compact, jwk); err != nil {
					t.Fatalf("C15 %s: second verification under the matching key failed: %v", k.Name, err)
				}
				my := new(big.Int).Sub(k.curve().Params().P, k.EC.Y)
				mj := *jwk
				mj.Y = b64(my.FillBytes(make([]byte, k.Type.Width())))
				bad, badKey, label = compact, &mj, "other-key-mirrored-point"
			}
		case 6: // signature truncated / extended
			if rapid.Bool().Draw(t, "truncate") {
				bad, label = seg[0]+"."+seg[1]+"."+b64(sb[:len(sb)-1]), "signature-short"
			} else {
				bad, label = seg[0]+"."+seg[1]+"."+b64(append(append([]byte{}, sb...), 0)), "signature-long"
			}
		case 7: // leading zero stripped from r (variable-width encodings must not verify)
			w := k.Type.Width()
			if k.Type != ktEd25519 && sb[0] == 0 {
				bad, label = seg[0]+"."+seg[1]+"."+b64(sb[1:]), "signature-minimal-r"
			} else if k.Type != ktEd25519 {
				bad, label = seg[0]+"."+seg[1]+"."+b64(append([]byte{0}, sb...)), "signature-extra-zero"
				_ = w
			} else {
				bad, label = seg[0]+"."+seg[1]+".", "signature-empty"
			}
		case 12: // header parameter names MUST be unique (RFC 7515 section 4); the signature is over the header without the duplicate
			firsts := []string{`"alg":"none"`, `"alg":"` + alg + `"`}
			if kid != "" {
				firsts = append(firsts, `"kid":"other"`)
			}
			first := rapid.SampledFrom(firsts).Draw(t, "dupMember")
			dup := "{" + first + "," + string(hb[1:])
			if rapid.Bool().Draw(t, "dupLast") {
				dup = string(hb[:len(hb)-1]) + "," + string(hb[1:])
			}
			bad, label = b64([]byte(dup))+"."+seg[1]+"."+seg[2], "header-duplicate-member"
		case 13: // the header segment is one JSON object: text after it (not white space) makes it something else
			tail := rapid.SampledFrom([]string{"}", "{\"alg\":\"none\"}", " garbage", "\x00", ",\"kid\":\"other\"", "[]", "0", " {}", "\n}"}).Draw(t, "headerTail")
			bad, label = b64(append(append([]byte{}, hb...), tail...))+"."+seg[1]+"."+seg[2], "header-trailing-text"
		case 8: // malformed segment split
			switch rapid.IntRange(0, 3).Draw(t, "split") {
			case 0:
				bad, label = seg[0]+"."+seg[1], "two-segments"
			case 1:
				bad, label = compact+"."+seg[2], "four-segments"
			case 2:
				bad, label = seg[0]+".."+seg[2], "empty-payload"
			default:
				bad, label = "."+seg[1]+"."+seg[2], "empty-header"
			}
		case 9: // bad base64
			i := rapid.IntRange(0, 2).Draw(t, "segment")
			s2 := append([]string{}, seg...)
			bc := rapid.SampledFrom([]string{"\n", "=", "*", "+", " ", "\r\n"}).Draw(t, "badChar")
			pos := rapid.IntRange(0, len(s2[i])).Draw(t, "badPos")
			s2[i] = s2[i][:pos] + bc + s2[i][pos:]
			bad, label = strings.Join(s2, "."), "bad-base64"
		case 10: // unsupported / mismatching key description
			kk := *jwk
			switch rapid.SampledFrom([]int{4, 5, 0, 1, 2, 3}).Draw(t, "keyMod") {
			case 4: // a key description that is not the matching key: coordinate with an extra byte
				x, _ := k.XY()
				kk.X = b64(append(append([]byte{}, x...), rapid.Byte().Draw(t, "extraByte")))
			case 5: // ... or with its last byte missing
				x, _ := k.XY()
				kk.X = b64(x[:len(x)-1])
			case 0:
				kk.Kty = rapid.SampledFrom([]string{"RSA", "oct", "", "ec", "okp"}).Draw(t, "kty")
			case 1:
				kk.Crv = rapid.SampledFrom([]string{"P-224", "", "X25519", "Ed448", "p-256"}).Draw(t, "crv")
			case 2:
				if k.Type == ktEd25519 {
					kk.Kty = "EC"
				} else {
					kk.Kty = "OKP"
				}
			default:
				kk.X = ""
			}
			bad, badKey, label = compact, &kk, "unsupported-key"
		default: // JSON serialization instead of compact
			bad, label = `{"payload":"`+seg[1]+`","protected":"`+seg[0]+`","signature":"`+seg[2]+`"}`, "json-serialization"
		}
		if res, err := jwsutil.VerifyJWS(bad, badKey); err == nil {
			t.Fatalf("C15 %s: tampered JWS (%s) verified: %s\n original: %s\n key: %+v\n payload=%x", k.Name, label, bad, compact, badKey, res.Payload)
		}
		labels = append(labels, "tamper-"+label)
		if _, _, _, ok := splitCompact(bad); ok && mut <= 7 {
			nontrivial = true
		}
		st.Case(nontrivial, compact+"|"+label+"|"+bad, labels...)
		st.Sample("jws-"+k.Type.String(), 1, func() interface{} {
			return map[string]interface{}{"key": k.JWKValue(), "jws": clip(compact, 500), "tamper": label, "tampered": clip(bad, 500)}
		})
	})
}

// TestC15_BitScan flips every bit of payload and signature (and every header byte to another JSON-meaningful value)
// of one JWS per key type.
func TestC15_BitScan(t *testing.T) {
	st := statsFor("C15")
	for _, kt := range allKeyTypes {
		keys := pool()[kt]
		nkeys := 1
		if thorough() {
			nkeys = len(keys)
		}
		si, sn := shard()
		for ki := 0; ki < nkeys; ki++ {
			if ki%sn != si%sn && thorough() {
				continue
			}
			k := keys[len(keys)-1-ki]
			payload := []byte(`{"deltaHash":"x","n":` + itoa(ki) + `}`)
			compact, err := signutil.SignPayload(payload, libSignerFor(k, kt.Alg(), ""))
			if err != nil {
				t.Fatal(err)
			}
			if _, err := jwsutil.VerifyJWS(compact, k.LibJWK()); err != nil {
				t.Fatalf("C15 scan %s: %v", k.Name, err)
			}
			seg := strings.Split(compact, ".")
			_, pb, sb, _ := splitCompact(compact)
			for segIdx, raw := range [][]byte{pb, sb} {
				for bit := 0; bit < len(raw)*8; bit++ {
					c := append([]byte{}, raw...)
					c[bit/8] ^= 1 << (bit % 8)
					s2 := append([]string{}, seg...)
					s2[segIdx+1] = b64(c)
					bad := strings.Join(s2, ".")
					if _, err := jwsutil.VerifyJWS(bad, k.LibJWK()); err == nil {
						t.Fatalf("C15 scan %s: flipping bit %d of segment %d still verifies: %s", k.Name, bit, segIdx+1, bad)
					}
					st.Case(true, bad, "bitscan-"+kt.String())
				}
			}
		}
	}
}

// TestC15_CallerHeaders: a JWS made by NewJWS with the library's signers and further protected headers of the caller's
// choosing (the library knows "b64" of RFC 7797 in its signing input) survives SerializeCompact + VerifyJWS.
func TestC15_CallerHeaders(t *testing.T) {
	st := statsFor("C15")
	check(t, "C15", 400, func(t *rapid.T) {
		k := genKey(t, "key")
		payload := genPayload(t)
		kid := rapid.SampledFrom([]string{"", "key-1"}).Draw(t, "kid")
		extra := rapid.SampledFrom([]jws.Headers{nil, {"b64": false}, {"b64": true}, {"typ": "JWT"}, {"cty": "json", "b64": false},
			{"b64": false, "crit": []string{"b64"}}, {"b64": true, "crit": []interface{}{"b64"}}, {"typ": "JWT", "crit": []string{"typ"}}}).Draw(t, "extra")
		signer := libSignerFor(k, k.Type.Alg(), kid)
		// unprotected headers are not part of a compact JWS and not signed: giving some changes nothing about the round trip
		unprotected := rapid.SampledFrom([]jws.Headers{nil, nil, {}, {"jku": "https://keys.example/set.json"}, {"x-note": "unsigned", "jku": "https://k.example"}}).Draw(t, "unprotected")
		// the header map belongs to the caller: it is not changed by signing, and what the caller does with it afterwards (the
		// next message gets other values) does not reach into the JWS that was made
		var mine jws.Headers
		if extra != nil {
			mine = jws.Headers{}
			for n, v := range extra {
				mine[n] = v
			}
		}
		before := fmt.Sprint(map[string]interface{}(mine))
		sig, err := jwsutil.NewJWS(mine, unprotected, payload, signer)
		if err != nil {
			t.Fatalf("C15 NewJWS(%v): %v", extra, err)
		}
		if after := fmt.Sprint(map[string]interface{}(mine)); after != before {
			t.Fatalf("C15 NewJWS changed the caller's header map: %s -> %s", before, after)
		}
		if mine != nil && rapid.Bool().Draw(t, "callerChangesHeadersAfterwards") {
			mine["cty"] = "changed-afterwards"
			mine["kid"] = "other-key"
			delete(mine, "typ")
			delete(mine, "b64")
		}
		// a signer is good for any number of signatures: making another one does not touch the first
		if rapid.Bool().Draw(t, "signerUsedAgain") {
			if _, err := jwsutil.NewJWS(extra, nil, append([]byte("another payload "), payload...), signer); err != nil {
				t.Fatalf("C15 second NewJWS with the same signer: %v", err)
			}
			if _, err := signer.Sign([]byte("and a bare signature")); err != nil {
				t.Fatalf("C15 Sign: %v", err)
			}
		}
		compact, err := sig.SerializeCompact(false)
		if err != nil {
			t.Fatalf("C15 SerializeCompact: %v", err)
		}
		parsed, err := jwsutil.VerifyJWS(compact, k.LibJWK())
		if err != nil {
			t.Fatalf("C15 %s: JWS with protected headers %v does not verify under the matching key: %v\n jws=%s", k.Name, extra, err, compact)
		}
		if !bytes.Equal(parsed.Payload, payload) {
			t.Fatalf("C15 %s: JWS with protected headers %v returns payload %x, want %x", k.Name, extra, parsed.Payload, payload)
		}
		if _, err := jwsutil.VerifyJWS(compact, otherKey(t, k).LibJWK()); err == nil {
			t.Fatalf("C15 %s: JWS with protected headers %v verifies under another key", k.Name, extra)
		}
		seg := strings.Split(compact, ".")
		pb, _ := base64.RawURLEncoding.DecodeString(seg[1])
		i := rapid.IntRange(0, len(pb)*8-1).Draw(t, "bit")
		pb[i/8] ^= 1 << (i % 8)
		if _, err := jwsutil.VerifyJWS(seg[0]+"."+b64(pb)+"."+seg[2], k.LibJWK()); err == nil {
			t.Fatalf("C15 %s: JWS with protected headers %v verifies after a payload bit changed", k.Name, extra)
		}
		_, hasB64 := extra["b64"]
		st.Case(hasB64 || len(unprotected) > 0, fmt.Sprint("hdr|", k.Name, extra, unprotected, payload), "caller-headers", fmt.Sprintf("caller-headers-%v", extra), fmt.Sprintf("unprotected-%d", len(unprotected)))
	})
}

// TestC15_Concurrent: the round trip holds for every key also when many signatures are made and verified at the same time.
func TestC15_Concurrent(t *testing.T) {
	st := statsFor("C15")
	check(t, "C15", 30, func(t *rapid.T) {
		kt := genKeyType(t, "kt") // all goroutines on one key type: shared per-curve state is what could go wrong
		n := rapid.IntRange(2, 8).Draw(t, "goroutines")
		rounds := rapid.IntRange(10, 40).Draw(t, "rounds")
		type job struct {
			k       *Key
			payload []byte
			compact string
		}
		jobs := make([]job, n)
		for i := range jobs {
			k := genKeyOf(t, kt, "key")
			// long payloads: the time spent hashing is where verifications of one curve could get in each other's way
			payload := bytes.Repeat(rapid.SliceOfN(rapid.Byte(), 1, 64).Draw(t, "payload"), rapid.IntRange(1, 2048).Draw(t, "repeat"))
			jobs[i] = job{k, payload, signCompact(k, map[string]interface{}{"alg": k.Type.Alg()}, payload, 0)}
		}
		errs := make(chan string, n)
		var wg sync.WaitGroup
		for i := range jobs {
			wg.Add(1)
			go func(j job) {
				defer wg.Done()
				defer func() {
					if r := recover(); r != nil {
						errs <- fmt.Sprintf("panic while verifying: %v", r)
					}
				}()
				for r := 0; r < rounds; r++ {
					parsed, err := jwsutil.VerifyJWS(j.compact, j.k.LibJWK())
					if err != nil || !bytes.Equal(parsed.Payload, j.payload) {
						errs <- fmt.Sprintf("%s: valid JWS does not verify (round %d): %v", j.k.Name, r, err)
						return
					}
					c2, err := signutil.SignPayload(j.payload, libSignerFor(j.k, j.k.Type.Alg(), ""))
					if err != nil {
						errs <- fmt.Sprintf("%s: SignPayload: %v", j.k.Name, err)
						return
					}
					if _, err := jwsutil.VerifyJWS(c2, j.k.LibJWK()); err != nil {
						errs <- fmt.Sprintf("%s: library-made JWS does not verify (round %d): %v", j.k.Name, r, err)
						return
					}
				}
			}(jobs[i])
		}
		awaitWorkers(t, &wg, "C15 concurrent signature verification")
		close(errs)
		for e := range errs {
			t.Fatalf("C15 (with %d goroutines at the same time, %s) %s", n, kt, e)
		}
		st.Case(n >= 4, fmt.Sprint("concurrent|", kt, n, rounds, jobs[0].k.Name), "concurrent", "concurrent-"+kt.String())
	})
}
