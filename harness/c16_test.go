package harness

// C16 — public keys survive the JWK encoding unchanged and at fixed width.
// Oracle: harness fixed-width encoding (big.Int.FillBytes) and refHash over it; by-construction verdicts for
// off-curve / wrong-width modifications.

import (
	"crypto/ecdsa"
	"crypto/ed25519"
	"encoding/json"
	"fmt"
	"math/big"
	"strings"
	"sync"
	"testing"

	"github.com/trustbloc/sidetree-go/pkg/commitment"
	"github.com/trustbloc/sidetree-go/pkg/document"
	"github.com/trustbloc/sidetree-go/pkg/jws"
	"github.com/trustbloc/sidetree-go/pkg/jwsutil"
	"github.com/trustbloc/sidetree-go/pkg/util/pubkey"
	"pgregory.net/rapid"
)

// genFreshKey draws a key outside the pool: scalar from drawn bytes (EC) or seed (Ed25519).
func genFreshKey(t *rapid.T, kt keyType) *Key {
	if kt == ktEd25519 {
		seed := rapid.SliceOfN(rapid.Byte(), 32, 32).Draw(t, "seed")
		return &Key{Type: kt, Ed: ed25519.NewKeyFromSeed(seed), Name: "fresh-ed"}
	}
	raw := rapid.SliceOfN(rapid.Byte(), 72, 72).Draw(t, "scalar")
	n := curveOf(kt).Params().N
	d := new(big.Int).SetBytes(raw)
	d.Mod(d, new(big.Int).Sub(n, big.NewInt(1)))
	d.Add(d, big.NewInt(1))
	return ecKeyFromScalar(kt, d, "fresh-"+kt.String())
}

func unmarshalJWK(j *jws.JWK) (*jwsutil.JWK, error) {
	b, err := json.Marshal(j)
	if err != nil {
		return nil, err
	}
	var out jwsutil.JWK
	if err := out.UnmarshalJSON(b); err != nil {
		return nil, err
	}
	return &out, nil
}

func TestC16_JWKRoundTrip(t *testing.T) {
	st := statsFor("C16")
	pool()
	for kt := ktP256; kt < numKeyTypes; kt++ {
		if lzKeys[kt][0] == nil || lzKeys[kt][1] == nil {
			t.Fatalf("harness: no leading-zero key found for %s (inconclusive)", kt)
		}
	}
	check(t, "C16", 1500, func(t *rapid.T) {
		kt := genKeyType(t, "kt")
		var k *Key
		if rapid.IntRange(0, 3).Draw(t, "fresh") == 0 {
			k = genFreshKey(t, kt)
		} else {
			k = genKeyOf(t, kt, "key")
		}
		x, y := k.XY()
		j, err := pubkey.GetPublicKeyJWK(k.Public())
		if err != nil {
			t.Fatalf("C16 GetPublicKeyJWK(%s): %v", k.Name, err)
		}
		if j.Kty != kt.Kty() || j.Crv != kt.Crv() {
			t.Fatalf("C16 %s: kty/crv = %q/%q want %q/%q", k.Name, j.Kty, j.Crv, kt.Kty(), kt.Crv())
		}
		wantY := ""
		if y != nil {
			wantY = b64(y)
		}
		if j.X != b64(x) || j.Y != wantY {
			t.Fatalf("C16 %s: coordinates not preserved at fixed width %d: x=%q y=%q want x=%q y=%q", k.Name, kt.Width(), j.X, j.Y, b64(x), wantY)
		}
		// the reader of update / recovery keys in requests (jws.JWK.Validate) takes it
		if err := j.Validate(); err != nil {
			t.Fatalf("C16 %s: JWK of a supported key refused by jws.JWK.Validate: %v (%s)", k.Name, err, refJCS(map[string]interface{}{"kty": j.Kty, "crv": j.Crv, "x": j.X, "y": j.Y}))
		}
		// ... and so does the reader of document keys (document.JWK.Validate), given the JWK as the library serializes it
		if raw, err := json.Marshal(j); err != nil {
			t.Fatalf("C16 %s: JWK does not serialize: %v", k.Name, err)
		} else {
			var asDocKey map[string]interface{}
			if err := json.Unmarshal(raw, &asDocKey); err != nil {
				t.Fatalf("C16 %s: serialized JWK is not a JSON object: %v", k.Name, err)
			}
			if err := document.JWK(asDocKey).Validate(); err != nil {
				t.Fatalf("C16 %s: the library's serialization of the key's JWK is refused as a document key: %v (%s)", k.Name, err, raw)
			}
		}
		// read back
		back, err := unmarshalJWK(j)
		if err != nil {
			t.Fatalf("C16 %s: own JWK not readable: %v", k.Name, err)
		}
		switch pk := back.Key.(type) {
		case *ecdsa.PublicKey:
			if kt == ktEd25519 || pk.X.Cmp(k.EC.X) != 0 || pk.Y.Cmp(k.EC.Y) != 0 || pk.Curve.Params().Name != k.curve().Params().Name {
				t.Fatalf("C16 %s: key read back differs", k.Name)
			}
		case ed25519.PublicKey:
			if kt != ktEd25519 || string(pk) != string(x) {
				t.Fatalf("C16 %s: key read back differs", k.Name)
			}
		default:
			t.Fatalf("C16 %s: unexpected key type %T", k.Name, back.Key)
		}
		if back.Kty != kt.Kty() || back.Crv != kt.Crv() {
			t.Fatalf("C16 %s: read back kty/crv %q/%q", k.Name, back.Kty, back.Crv)
		}
		if kt == ktEd25519 {
			pk, err := jwsutil.GetED25519PublicKey(j)
			if err != nil || string(pk) != string(x) {
				t.Fatalf("C16 GetED25519PublicKey: %x (%v) want %x", pk, err, x)
			}
		}
		// commitments computed from the library's JWK equal the ones computed from the harness encoding
		alg := rapid.SampledFrom([]uint{18, 19}).Draw(t, "alg")
		c, err := commitment.GetCommitment(j, alg)
		if err != nil || c != k.Commitment(alg) {
			t.Fatalf("C16 %s: commitment %q (%v) want %q", k.Name, c, err, k.Commitment(alg))
		}
		rv, err := commitment.GetRevealValue(j, alg)
		if err != nil || rv != k.Reveal(alg) {
			t.Fatalf("C16 %s: reveal value %q (%v) want %q", k.Name, rv, err, k.Reveal(alg))
		}

		// modifications that must be rejected
		mod := rapid.IntRange(0, 8).Draw(t, "mod")
		bad := *j
		label := ""
		coord := rapid.IntRange(0, 1).Draw(t, "coord")
		if kt == ktEd25519 {
			coord = 0
		}
		get := func() []byte {
			if coord == 0 {
				return append([]byte{}, x...)
			}
			return append([]byte{}, y...)
		}
		set := func(b []byte) {
			if coord == 0 {
				bad.X = b64(b)
			} else {
				bad.Y = b64(b)
			}
		}
		mustReject := true
		switch mod {
		case 0: // coordinate changed in its last bit: off curve
			b := get()
			b[len(b)-1] ^= 1
			set(b)
			label = "off-curve-lsb"
			if kt == ktEd25519 {
				mustReject = false // any 32 bytes are accepted as an Ed25519 key encoding at this layer
			}
		case 1: // random bit flipped
			b := get()
			i := rapid.IntRange(0, len(b)*8-1).Draw(t, "bit")
			b[i/8] ^= 1 << (i % 8)
			set(b)
			label = "off-curve-bit"
			if kt == ktEd25519 {
				mustReject = false
			}
		case 2: // shortened by the last byte
			b := get()
			set(b[:len(b)-1])
			label = "short-tail"
		case 3: // extended (by one byte, or by so many that a narrow length field wraps around)
			n := rapid.SampledFrom([]int{1, 1, 256, 65536}).Draw(t, "extraBytes")
			set(append(get(), append(make([]byte, n-1), rapid.Byte().Draw(t, "extra"))...))
			label = "long-tail"
		case 4: // extra leading zeros: the same number, not the same encoding
			n := rapid.SampledFrom([]int{1, 1, 2, 32, 256, 512, 65536}).Draw(t, "leadingZeros")
			set(append(make([]byte, n), get()...))
			label = "long-leading-zero"
		case 5: // leading byte stripped (a leading zero when there is one: the classic minimal-encoding bug)
			b := get()
			set(b[1:])
			label = "stripped-leading"
			if b[0] == 0 {
				label = "stripped-leading-zero"
			}
		case 8: // the bytes of x and y cut at another place: together still the point, neither coordinate of the curve's width
			if kt == ktEd25519 {
				bad.X = b64(append(append([]byte{}, x...), x...))
				label = "doubled-x"
			} else {
				both := append(append([]byte{}, x...), y...)
				cut := rapid.SampledFrom([]int{len(x) - 1, len(x) + 1, len(x) - 2, len(x) + 2, 1, 0, len(both)}).Draw(t, "cut")
				bad.X, bad.Y = b64(both[:cut]), b64(both[cut:])
				label = "shifted-split"
			}
		case 6: // point labelled with another curve
			others := []keyType{ktP256, ktP384, ktP521, ktSecp256k1}
			o := rapid.SampledFrom(others).Draw(t, "other")
			if o == kt || kt == ktEd25519 {
				bad.Crv = "P-224"
				label = "unsupported-crv"
			} else {
				bad.Crv = o.Crv()
				label = "wrong-crv"
			}
		default: // coordinates swapped
			if kt == ktEd25519 {
				bad.X = ""
				label = "empty-x"
			} else {
				bad.X, bad.Y = bad.Y, bad.X
				label = "swapped"
			}
		}
		// optional JWK members (alg, kid, use) change nothing about which curve the point has to be on
		{
			raw := func(jw *jws.JWK, alg string) []byte {
				m := map[string]interface{}{"kty": jw.Kty, "crv": jw.Crv, "x": jw.X, "alg": alg, "kid": "k", "use": "sig"}
				if jw.Y != "" {
					m["y"] = jw.Y
				}
				return []byte(refJCS(m))
			}
			var withAlg jwsutil.JWK
			if err := withAlg.UnmarshalJSON(raw(j, kt.Alg())); err != nil {
				t.Fatalf("C16 %s: valid JWK with alg/kid/use members refused: %v", k.Name, err)
			}
			if mustReject {
				for _, a := range []string{kt.Alg(), "ES256K", "ES256", "EdDSA"} {
					var b jwsutil.JWK
					if err := b.UnmarshalJSON(raw(&bad, a)); err == nil {
						if kt == ktEd25519 {
							if _, gerr := jwsutil.GetED25519PublicKey(&bad); gerr != nil {
								continue
							}
						}
						t.Fatalf("C16 %s: modified JWK (%s) accepted when it carries \"alg\":%q: %s", k.Name, label, a, raw(&bad, a))
					}
				}
			}
		}
		// member names are case-sensitive: a member spelled in another case is another member, it neither replaces nor repairs
		// the real one
		{
			withDecoys := func(jw *jws.JWK, decoys map[string]interface{}) []byte {
				m := map[string]interface{}{"kty": jw.Kty, "crv": jw.Crv, "x": jw.X}
				if jw.Y != "" {
					m["y"] = jw.Y
				}
				for n, v := range decoys {
					m[n] = v
				}
				return []byte(refJCS(m))
			}
			o := otherKey(t, k)
			ox, _ := o.XY()
			decoy := rapid.SampledFrom([]string{"X", "Y", "KTY", "CRV", "Crv", "Kty"}).Draw(t, "decoyMember")
			decoyVal := map[string]interface{}{"X": b64(ox), "Y": b64(ox), "KTY": "OKP", "CRV": "P-384", "Crv": "secp256k1", "Kty": "RSA"}[decoy]
			var withDecoy jwsutil.JWK
			if err := withDecoy.UnmarshalJSON(withDecoys(j, map[string]interface{}{decoy: decoyVal})); err != nil {
				t.Fatalf("C16 %s: valid JWK refused because of an unrelated member %q: %v", k.Name, decoy, err)
			}
			if bj, err := withDecoy.MarshalJSON(); err != nil || !strings.Contains(string(bj), `"`+j.X+`"`) || (j.Y != "" && !strings.Contains(string(bj), `"`+j.Y+`"`)) {
				t.Fatalf("C16 %s: JWK read next to a member %q is not the key of its x / y members: %s (%v)", k.Name, decoy, bj, err)
			}
			if mustReject {
				// the modified key stays refused when the original coordinate is offered under the upper-case name
				var b jwsutil.JWK
				if err := b.UnmarshalJSON(withDecoys(&bad, map[string]interface{}{"X": j.X, "Y": j.Y, "CRV": j.Crv})); err == nil {
					if _, gerr := jwsutil.GetED25519PublicKey(&bad); !(kt == ktEd25519 && gerr != nil) {
						t.Fatalf("C16 %s: modified JWK (%s) accepted next to upper-case members holding the original values: %s", k.Name, label, withDecoys(&bad, map[string]interface{}{"X": j.X, "Y": j.Y, "CRV": j.Crv}))
					}
				}
			}
			// kty / crv only under upper-case names: not a JWK of any type
			var noType jwsutil.JWK
			if err := noType.UnmarshalJSON([]byte(refJCS(map[string]interface{}{"KTY": j.Kty, "CRV": j.Crv, "x": j.X, "y": j.Y}))); err == nil {
				t.Fatalf("C16 %s: JWK without kty / crv members (only KTY / CRV) accepted", k.Name)
			}
		}
		// a JWK is JSON text: the same object in another spelling (escapes in strings, white space, member order) is the same key
		{
			m := map[string]interface{}{"kty": j.Kty, "crv": j.Crv, "x": j.X}
			if j.Y != "" {
				m["y"] = j.Y
			}
			text := spell(t, m, 1)
			var spelled jwsutil.JWK
			if err := spelled.UnmarshalJSON([]byte(text)); err != nil {
				t.Fatalf("C16 %s: valid JWK refused in another JSON spelling: %v\n %s", k.Name, err, text)
			}
			bj, err := spelled.MarshalJSON()
			var out map[string]interface{}
			if err != nil || json.Unmarshal(bj, &out) != nil || out["x"] != j.X || (j.Y != "" && out["y"] != j.Y) || out["crv"] != j.Crv {
				t.Fatalf("C16 %s: JWK read from another JSON spelling is another key: %s (%v)\n %s", k.Name, bj, err, text)
			}
		}
		// key type / curve names spelled in another letter case: refusing them is fine, but a reader that takes them must still
		// hand out the key under the registered names (the JWK it writes is what commitments are computed from)
		{
			flip := func(s, l string) string {
				r := []rune(s)
				changed := false
				for i := range r {
					if rapid.Bool().Draw(t, l) {
						if u := []rune(strings.ToUpper(string(r[i])))[0]; u != r[i] {
							r[i], changed = u, true
						} else if lo := []rune(strings.ToLower(string(r[i])))[0]; lo != r[i] {
							r[i], changed = lo, true
						}
					}
				}
				if !changed {
					if up := strings.ToUpper(s); up != s {
						return up
					}
					return strings.ToLower(s)
				}
				return string(r)
			}
			m := map[string]interface{}{"kty": j.Kty, "crv": j.Crv, "x": j.X}
			if j.Y != "" {
				m["y"] = j.Y
			}
			switch rapid.IntRange(0, 2).Draw(t, "respelledName") {
			case 0:
				m["kty"] = flip(j.Kty, "ktyCase")
			case 1:
				m["crv"] = flip(j.Crv, "crvCase")
			default:
				m["kty"], m["crv"] = flip(j.Kty, "ktyCase"), flip(j.Crv, "crvCase")
			}
			var respelled jwsutil.JWK
			if err := respelled.UnmarshalJSON([]byte(refJCS(m))); err == nil {
				bj, err := respelled.MarshalJSON()
				var out map[string]interface{}
				if err != nil || json.Unmarshal(bj, &out) != nil || out["kty"] != j.Kty || out["crv"] != j.Crv || out["x"] != j.X || (j.Y != "" && out["y"] != j.Y) {
					t.Fatalf("C16 %s: JWK read from %s is written as %s (%v): not the registered key type / curve name", k.Name, refJCS(m), bj, err)
				}
				st.Label("respelled-names-accepted")
			} else {
				st.Label("respelled-names-refused")
			}
		}
		// the bytes of a marshalled key belong to the caller: marshalling another key does not change them
		if back2, err := unmarshalJWK(j); err == nil {
			b1, err1 := back2.MarshalJSON()
			snap1 := string(b1)
			if o2, err := unmarshalJWK(otherKey(t, k).LibJWK()); err == nil {
				_, _ = o2.MarshalJSON()
			}
			if o3, err := unmarshalJWK(genKeyOf(t, kt, "sameTypeOther").LibJWK()); err == nil {
				_, _ = o3.MarshalJSON()
			}
			if err1 != nil || string(b1) != snap1 {
				t.Fatalf("C16 %s: bytes returned by MarshalJSON changed when other keys were marshalled:\n was %s\n now %s", k.Name, snap1, b1)
			}
		}
		// readers used for verification must refuse it as well, also right after the valid key was used
		{
			msg := []byte("C16 verification message")
			sig := k.Sign(msg, 0)
			if verr := jwsutil.VerifySignature(j, sig, msg); verr != nil {
				t.Fatalf("C16 %s: signature does not verify under the library's JWK: %v", k.Name, verr)
			}
			if mustReject {
				if verr := jwsutil.VerifySignature(&bad, sig, msg); verr == nil {
					t.Fatalf("C16 %s: modified JWK (%s) accepted by VerifySignature after the valid key was used: %+v", k.Name, label, bad)
				}
			}
		}
		_, uerr := unmarshalJWK(&bad)
		rejected := uerr != nil
		if kt == ktEd25519 && !rejected {
			// for OKP the width is enforced when the key is extracted
			_, gerr := jwsutil.GetED25519PublicKey(&bad)
			rejected = gerr != nil
		}
		if mustReject && !rejected {
			t.Fatalf("C16 %s: modified JWK (%s) accepted: %+v", k.Name, label, bad)
		}
		lz := k.hasLeadingZero()
		labels := []string{"type-" + kt.String(), "mod-" + label}
		if lz {
			labels = append(labels, "leading-zero-"+kt.String())
		}
		st.Case(lz || mustReject, k.Name+"|"+b64(x)+"|"+label+"|"+bad.X+bad.Y+bad.Crv, labels...)
		st.Sample("key-"+kt.String(), 1, func() interface{} {
			return map[string]interface{}{"jwk": j, "modification": label, "modified": bad, "leadingZero": lz}
		})
	})
}

// TestC16_OffCurveForgery: a key description whose point is not on the curve must be refused wherever it is read — also by
// the verification path, and also for a signature that was made for that very point. For a point Q of small order
// (off-curve points with tiny coordinates behave like that in some curve arithmetic) anyone can write a signature
// r = (kG).x, s = e/k without a private key: u2*Q vanishes and the check reduces to (e/s)G = kG.
func TestC16_OffCurveForgery(t *testing.T) {
	st := statsFor("C16")
	check(t, "C16", 600, func(t *rapid.T) {
		kt := rapid.SampledFrom([]keyType{ktSecp256k1, ktP256, ktP384, ktP521}).Draw(t, "kt")
		curve := curveOf(kt)
		n := curve.Params().N
		w := kt.Width()
		x := big.NewInt(int64(rapid.IntRange(0, 4).Draw(t, "x")))
		y := big.NewInt(int64(rapid.IntRange(0, 4).Draw(t, "y")))
		if rapid.IntRange(0, 3).Draw(t, "mirrorY") == 0 && y.Sign() != 0 {
			y.Sub(curve.Params().P, y)
		}
		if curve.IsOnCurve(x, y) {
			st.Exclude("small point happens to be on the curve")
			return
		}
		j := &jws.JWK{Kty: "EC", Crv: kt.Crv(), X: b64(x.FillBytes(make([]byte, w))), Y: b64(y.FillBytes(make([]byte, w)))}
		msg := rapid.SliceOfN(rapid.Byte(), 1, 40).Draw(t, "msg")
		e := new(big.Int).SetBytes(kt.hash(msg))
		k := big.NewInt(int64(rapid.IntRange(1, 12).Draw(t, "k")))
		rx, _ := curve.ScalarBaseMult(k.Bytes())
		r := new(big.Int).Mod(rx, n)
		s := new(big.Int).Mul(e, new(big.Int).ModInverse(k, n))
		s.Mod(s, n)
		if rapid.Bool().Draw(t, "lowS") && s.Cmp(new(big.Int).Rsh(n, 1)) > 0 {
			s.Sub(n, s)
		}
		if r.Sign() == 0 || s.Sign() == 0 {
			st.Exclude("degenerate r or s")
			return
		}
		sig := append(r.FillBytes(make([]byte, w)), s.FillBytes(make([]byte, w))...)
		if err := jwsutil.VerifySignature(j, sig, msg); err == nil {
			t.Fatalf("C16 %s: off-curve point (%v,%v) accepted by VerifySignature, and a signature made without any private key (k=%v) verifies\n jwk=%+v sig=%x msg=%x", kt, x, y, k, j, sig, msg)
		}
		if _, err := unmarshalJWK(j); err == nil {
			t.Fatalf("C16 %s: off-curve point (%v,%v) read as a key", kt, x, y)
		}
		st.Case(true, fmt.Sprint("forgery|", kt, x, y, k, msg), "off-curve-forgery-"+kt.String())
	})
}

// TestC16_ConstructedPoints: the encoding is exact for every point of the curve, not only for points that come out of key
// generation: x is chosen (around the group order n, the field prime p, and 0) and y solved from the curve equation.
// Coordinates in [n, p) are legal: n bounds scalars, not coordinates.
func TestC16_ConstructedPoints(t *testing.T) {
	st := statsFor("C16")
	check(t, "C16", 400, func(t *rapid.T) {
		kt := rapid.SampledFrom([]keyType{ktSecp256k1, ktP256, ktP384, ktP521}).Draw(t, "kt")
		curve := curveOf(kt)
		pr := curve.Params()
		w := kt.Width()
		var x *big.Int
		region := rapid.SampledFrom([]string{"at-n", "between-n-and-p", "below-p", "small"}).Draw(t, "region")
		off := big.NewInt(int64(rapid.IntRange(0, 2000).Draw(t, "offset")))
		switch region {
		case "at-n":
			x = new(big.Int).Add(pr.N, off)
		case "between-n-and-p":
			span := new(big.Int).Sub(pr.P, pr.N)
			x = new(big.Int).Add(pr.N, new(big.Int).Div(span, big.NewInt(int64(rapid.IntRange(2, 9).Draw(t, "fraction")))))
			x.Add(x, off)
		case "below-p":
			x = new(big.Int).Sub(pr.P, new(big.Int).Add(off, big.NewInt(1)))
		default:
			x = off
		}
		// next x (cyclically below p) for which x^3 + ax + b is a square
		var y *big.Int
		for i := 0; i < 200 && y == nil; i++ {
			x.Mod(x, pr.P)
			rhs := new(big.Int).Exp(x, big.NewInt(3), pr.P)
			if kt != ktSecp256k1 {
				rhs.Sub(rhs, new(big.Int).Mul(big.NewInt(3), x)) // a = -3 for the NIST curves
			}
			rhs.Add(rhs, pr.B)
			rhs.Mod(rhs, pr.P)
			if r := new(big.Int).ModSqrt(rhs, pr.P); r != nil {
				y = r
			} else {
				x.Add(x, big.NewInt(1))
			}
		}
		if y == nil || !curve.IsOnCurve(x, y) {
			t.Fatalf("harness: no point found near x (inconclusive)")
		}
		if rapid.Bool().Draw(t, "otherRoot") {
			y = new(big.Int).Sub(pr.P, y)
		}
		pub := &ecdsa.PublicKey{Curve: curve, X: x, Y: y}
		j, err := pubkey.GetPublicKeyJWK(pub)
		if err != nil {
			t.Fatalf("C16 %s: GetPublicKeyJWK refused a point of the curve (x=%x y=%x, x>=n: %v): %v", kt, x, y, x.Cmp(pr.N) >= 0, err)
		}
		wantX, wantY := b64(x.FillBytes(make([]byte, w))), b64(y.FillBytes(make([]byte, w)))
		if j.X != wantX || j.Y != wantY || j.Kty != "EC" || j.Crv != kt.Crv() {
			t.Fatalf("C16 %s: constructed point encoded as %+v, want x=%s y=%s", kt, j, wantX, wantY)
		}
		back, err := unmarshalJWK(j)
		if err != nil {
			t.Fatalf("C16 %s: JWK of a constructed point not readable: %v (%+v)", kt, err, j)
		}
		if pk, ok := back.Key.(*ecdsa.PublicKey); !ok || pk.X.Cmp(x) != 0 || pk.Y.Cmp(y) != 0 {
			t.Fatalf("C16 %s: constructed point read back differs", kt)
		}
		alg := rapid.SampledFrom([]uint{18, 19}).Draw(t, "alg")
		want := map[string]interface{}{"kty": "EC", "crv": kt.Crv(), "x": wantX, "y": wantY}
		if c, err := commitment.GetCommitment(j, alg); err != nil || c != refCommitmentOf(want, alg) {
			t.Fatalf("C16 %s: commitment of a constructed point %q (%v), reference %q", kt, c, err, refCommitmentOf(want, alg))
		}
		lz := x.BitLen() <= (w-1)*8 || y.BitLen() <= (w-1)*8
		st.Case(region != "small" || lz, fmt.Sprint("constructed|", kt, x, y), "constructed-"+region, "constructed-"+kt.String())
	})
}

// TestC16_PrivateJWK: a JWK that also carries the private scalar d is read by the same reader; its point must be on the
// curve and of full width all the same.
func TestC16_PrivateJWK(t *testing.T) {
	st := statsFor("C16")
	check(t, "C16", 600, func(t *rapid.T) {
		kt := rapid.SampledFrom([]keyType{ktSecp256k1, ktP256, ktP384, ktP521}).Draw(t, "kt")
		k := genKeyOf(t, kt, "key")
		w := kt.Width()
		x, y := k.XY()
		d := k.EC.D.FillBytes(make([]byte, w))
		text := func(x, y, d []byte) []byte {
			return []byte(refJCS(map[string]interface{}{"kty": "EC", "crv": kt.Crv(), "x": b64(x), "y": b64(y), "d": b64(d)}))
		}
		var good jwsutil.JWK
		if err := good.UnmarshalJSON(text(x, y, d)); err != nil {
			t.Fatalf("C16 %s: valid private JWK refused: %v", k.Name, err)
		}
		if pk, ok := good.Public().Key.(*ecdsa.PublicKey); !ok || pk.X.Cmp(k.EC.X) != 0 || pk.Y.Cmp(k.EC.Y) != 0 {
			t.Fatalf("C16 %s: public part of a private JWK differs from the key", k.Name)
		}
		bx, by := append([]byte{}, x...), append([]byte{}, y...)
		label := ""
		switch rapid.IntRange(0, 3).Draw(t, "mod") {
		case 0:
			by[len(by)-1] ^= 1
			label = "private-off-curve-y"
		case 1:
			i := rapid.IntRange(0, len(bx)*8-1).Draw(t, "bit")
			bx[i/8] ^= 1 << (i % 8)
			label = "private-off-curve-x"
		case 2:
			bx = bx[:len(bx)-1]
			label = "private-short-x"
		default:
			by = append([]byte{0}, by...)
			label = "private-long-y"
		}
		var bad jwsutil.JWK
		if err := bad.UnmarshalJSON(text(bx, by, d)); err == nil {
			t.Fatalf("C16 %s: private JWK with a modified point (%s) accepted: %s", k.Name, label, text(bx, by, d))
		}
		st.Case(true, fmt.Sprint("private|", k.Name, label, bx, by), "mod-"+label, "type-"+kt.String())
	})
}

// TestC16_Concurrent: keys are converted to JWK form and read back from several goroutines at once (all of one key type,
// so that whatever a conversion shares per type is shared); every goroutine gets its own key back.
func TestC16_Concurrent(t *testing.T) {
	st := statsFor("C16")
	check(t, "C16", 30, func(t *rapid.T) {
		kt := genKeyType(t, "kt")
		n := rapid.IntRange(2, 8).Draw(t, "goroutines")
		rounds := rapid.IntRange(20, 200).Draw(t, "rounds")
		keys := make([]*Key, n)
		for i := range keys {
			if rapid.Bool().Draw(t, "fresh") {
				keys[i] = genFreshKey(t, kt)
			} else {
				keys[i] = genKeyOf(t, kt, "key")
			}
		}
		errs := make(chan string, n)
		var wg sync.WaitGroup
		for i := range keys {
			wg.Add(1)
			go func(k *Key) {
				defer wg.Done()
				x, y := k.XY()
				wantY := ""
				if y != nil {
					wantY = b64(y)
				}
				for r := 0; r < rounds; r++ {
					j, err := pubkey.GetPublicKeyJWK(k.Public())
					if err != nil || j.X != b64(x) || j.Y != wantY || j.Crv != kt.Crv() {
						errs <- fmt.Sprintf("%s: JWK of the key is %+v (%v), want x=%s y=%s", k.Name, j, err, b64(x), wantY)
						return
					}
					back, err := unmarshalJWK(j)
					if err != nil {
						errs <- fmt.Sprintf("%s: own JWK not readable: %v", k.Name, err)
						return
					}
					if bj, err := back.MarshalJSON(); err != nil || !strings.Contains(string(bj), `"`+b64(x)+`"`) {
						errs <- fmt.Sprintf("%s: marshalled JWK %s (%v) does not carry the key's x", k.Name, bj, err)
						return
					}
				}
			}(keys[i])
		}
		awaitWorkers(t, &wg, "C16 concurrent key conversion")
		close(errs)
		for e := range errs {
			t.Fatalf("C16 (with %d goroutines converting %s keys at the same time) %s", n, kt, e)
		}
		st.Case(n >= 3, fmt.Sprint("concurrent|", kt, n, rounds, keys[0].Name), "concurrent", "concurrent-"+kt.String())
	})
}
