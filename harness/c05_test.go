package harness

// C05 — canonicalization produces the unique RFC 8785 form.
// Oracle: independent serializer refJCS / refES6 (ref_jcs_test.go); round trip through encoding/json.

import (
	"bytes"
	"encoding/json"
	"fmt"
	"io"
	"math"
	"reflect"
	"strings"
	"testing"
	"unicode/utf8"

	"github.com/trustbloc/sidetree-go/pkg/canonicalizer"
	"pgregory.net/rapid"
)

func c05CheckSpelling(t *rapid.T, what, sp, want string, v interface{}) {
	got, err := canonicalizer.MarshalCanonical([]byte(sp))
	if err != nil {
		t.Fatalf("C05 %s: canonicalizer rejected I-JSON input %q: %v", what, sp, err)
	}
	if string(got) != want {
		t.Fatalf("C05 %s: canonical form differs from RFC 8785 reference\n input: %q\n got:   %q\n want:  %q", what, sp, got, want)
	}
	again, err := canonicalizer.MarshalCanonical(got)
	if err != nil || !bytes.Equal(again, got) {
		t.Fatalf("C05 %s: output is not a fixed point: %q -> %q (%v)", what, got, again, err)
	}
	var back interface{}
	if err := json.Unmarshal(got, &back); err != nil {
		t.Fatalf("C05 %s: output is not valid JSON: %q: %v", what, got, err)
	}
	if !reflect.DeepEqual(normalizeEmpty(back), normalizeEmpty(v)) {
		t.Fatalf("C05 %s: output denotes a different value\n input: %q\n output: %q", what, sp, got)
	}
}

// normalizeEmpty maps empty slices/maps to canonical empties so DeepEqual compares JSON values, not Go nil-ness.
func normalizeEmpty(v interface{}) interface{} {
	switch x := v.(type) {
	case []interface{}:
		out := make([]interface{}, len(x))
		for i, e := range x {
			out[i] = normalizeEmpty(e)
		}
		return out
	case map[string]interface{}:
		out := make(map[string]interface{}, len(x))
		for k, e := range x {
			out[k] = normalizeEmpty(e)
		}
		return out
	case float64:
		if x == 0 {
			return float64(0)
		}
		return x
	default:
		return v
	}
}

func TestC05_Trees(t *testing.T) {
	st := statsFor("C05")
	maxDepth, maxWidth := 5, 6
	if thorough() {
		maxDepth, maxWidth = 9, 8
	}
	check(t, "C05", 6000, func(t *rapid.T) {
		vi := &valueInfo{}
		v := genTopLevel(t, maxDepth, maxWidth, vi)
		want := refJCS(v)
		plain := spell(t, v, 0)
		c05CheckSpelling(t, "plain spelling", plain, want, v)
		for i := 0; i < 2; i++ {
			sp := spell(t, v, 1)
			c05CheckSpelling(t, "varied spelling", sp, want, v)
		}
		// Go value path (json.Marshal spelling: HTML escapes,  , 'e' exponents)
		got, err := canonicalizer.MarshalCanonical(v)
		if err != nil || string(got) != want {
			t.Fatalf("C05 Go-value path: got %q (%v) want %q", got, err, want)
		}
		// different values have different canonical forms
		v2, how := mutateValue(t, v)
		got2, err := canonicalizer.MarshalCanonical([]byte(spell(t, v2, 1)))
		if err != nil || string(got2) != refJCS(v2) {
			t.Fatalf("C05 modified value (%s): got %q (%v) want %q", how, got2, err, refJCS(v2))
		}
		if string(got2) == want {
			t.Fatalf("C05 two different values (%s) have the same canonical form %q", how, want)
		}
		labels := []string{"tree"}
		nontrivial := false
		for l := range vi.labels {
			labels = append(labels, l)
			switch l {
			case "utf16-order-differs", "str-ctrl", "str-astral", "str-bmp-high", "num-boundary", "num-threshold", "num-bigint":
				nontrivial = true
			}
		}
		if vi.labels["obj-multi"] && want != plain {
			labels = append(labels, "reordered-or-respelled")
			nontrivial = true
		}
		st.Case(nontrivial, want, labels...)
		st.Sample("tree", 3, func() interface{} { return map[string]string{"input": clip(plain, 400), "canonical": clip(want, 400)} })
		if vi.labels["utf16-order-differs"] {
			st.Sample("utf16-order-differs", 2, func() interface{} { return map[string]string{"canonical": clip(want, 400)} })
		}
	})
}

func clip(s string, n int) string {
	if len(s) > n {
		return s[:n] + "…"
	}
	return s
}

func TestC05_Numbers(t *testing.T) {
	st := statsFor("C05")
	const batch = 500
	check(t, "C05", 1500, func(t *rapid.T) {
		mode := rapid.IntRange(0, 2).Draw(t, "mode")
		xs := make([]float64, 0, batch)
		switch mode {
		case 0: // raw bits
			for _, b := range rapid.SliceOfN(rapid.Uint64(), batch, batch).Draw(t, "bits") {
				f := math.Float64frombits(b)
				if math.IsNaN(f) || math.IsInf(f, 0) {
					f = math.Float64frombits(b &^ (1 << 62))
				}
				xs = append(xs, f)
			}
		case 1: // structured families
			for i := 0; i < batch/10; i++ {
				f, _ := genNumber(t)
				xs = append(xs, f)
			}
		default: // walks of ulps around boundaries
			base := rapid.SampledFrom(boundaryNumbers).Draw(t, "base")
			f := base
			up := rapid.Bool().Draw(t, "up")
			for i := 0; i < batch; i++ {
				xs = append(xs, f)
				if up {
					f = ulpUp(f)
				} else {
					f = ulpDown(f)
				}
				if math.IsInf(f, 0) {
					break
				}
			}
		}
		for _, f := range xs {
			in := "[" + spellNumber(t, f, mode%2) + "]"
			want := "[" + refES6(f) + "]"
			got, err := canonicalizer.MarshalCanonical([]byte(in))
			if err != nil || string(got) != want {
				t.Fatalf("C05 number: input %s (bits %016x): got %q (%v) want %q", in, math.Float64bits(f), got, err, want)
			}
			a := math.Abs(f)
			boundary := a >= 1e20 && a < 1e22 || a > 0 && a < 1e-5 && a >= 1e-8 || a >= 1e11 && a < 1e21 && f == math.Trunc(f)
			st.Case(boundary, want, "number")
		}
		st.Sample("numbers", 2, func() interface{} {
			out := []string{}
			for i := 0; i < len(xs) && i < 5; i++ {
				out = append(out, refES6(xs[i]))
			}
			return out
		})
	})
}

// ---- I-JSON acceptance test used by the byte-level fuzz target ----

var errNotIJSON = fmt.Errorf("not I-JSON")

// decodeIJSON decodes data if it is I-JSON with an object/array at top level: valid UTF-8, valid JSON, no duplicate
// member names, no lone surrogates, finite numbers. Otherwise errNotIJSON.
func decodeIJSON(data []byte) (interface{}, error) {
	if !utf8.Valid(data) || !json.Valid(data) {
		return nil, errNotIJSON
	}
	dec := json.NewDecoder(bytes.NewReader(data))
	v, err := decodeNoDup(dec)
	if err != nil {
		return nil, errNotIJSON
	}
	if _, err := dec.Token(); err != io.EOF {
		return nil, errNotIJSON
	}
	switch v.(type) {
	case map[string]interface{}, []interface{}:
	default:
		return nil, errNotIJSON
	}
	// lone surrogates are replaced by U+FFFD by encoding/json: refuse inputs where that may have happened
	if hasRune(v, 0xfffd) {
		return nil, errNotIJSON
	}
	return v, nil
}

func hasRune(v interface{}, r rune) bool {
	switch x := v.(type) {
	case string:
		return strings.ContainsRune(x, r)
	case []interface{}:
		for _, e := range x {
			if hasRune(e, r) {
				return true
			}
		}
	case map[string]interface{}:
		for k, e := range x {
			if strings.ContainsRune(k, r) || hasRune(e, r) {
				return true
			}
		}
	}
	return false
}

func decodeNoDup(dec *json.Decoder) (interface{}, error) {
	tok, err := dec.Token()
	if err != nil {
		return nil, err
	}
	switch x := tok.(type) {
	case json.Delim:
		switch x {
		case '{':
			obj := map[string]interface{}{}
			for dec.More() {
				kt, err := dec.Token()
				if err != nil {
					return nil, err
				}
				k, ok := kt.(string)
				if !ok {
					return nil, errNotIJSON
				}
				if _, dup := obj[k]; dup {
					return nil, errNotIJSON
				}
				v, err := decodeNoDup(dec)
				if err != nil {
					return nil, err
				}
				obj[k] = v
			}
			if _, err := dec.Token(); err != nil {
				return nil, err
			}
			return obj, nil
		case '[':
			arr := []interface{}{}
			for dec.More() {
				v, err := decodeNoDup(dec)
				if err != nil {
					return nil, err
				}
				arr = append(arr, v)
			}
			if _, err := dec.Token(); err != nil {
				return nil, err
			}
			return arr, nil
		}
		return nil, errNotIJSON
	case float64:
		if math.IsInf(x, 0) || math.IsNaN(x) {
			return nil, errNotIJSON
		}
		return x, nil
	default:
		return tok, nil
	}
}

func FuzzC05(f *testing.F) {
	for _, s := range []string{`{}`, `[]`, `{"a":1,"b":[true,null,"x"]}`, `[1e21,1e-7,-0,4.50]`, `{"😀":"€","דּ":1}`,
		`{"a":{"b":{"c":[[[]]]}}}`, `[1E400]`, `{"a":1,"a":2}`, `["\ud800"]`, `[0x10]`, `[NaN]`, `{"a" : "\/\b\f" }`, "[\"\x7f\"]"} {
		f.Add([]byte(s))
	}
	f.Fuzz(func(t *testing.T, data []byte) {
		if len(data) > 1<<16 {
			return
		}
		got, err := canonicalizer.MarshalCanonical(data) // must not panic
		v, derr := decodeIJSON(data)
		if derr != nil {
			return
		}
		if depth(v) > 200 {
			return
		}
		want := refJCS(v)
		if err != nil {
			t.Fatalf("C05 fuzz: I-JSON input rejected: %q: %v", data, err)
		}
		if string(got) != want {
			t.Fatalf("C05 fuzz: %q -> %q want %q", data, got, want)
		}
	})
}

func depth(v interface{}) int {
	d := 0
	switch x := v.(type) {
	case []interface{}:
		for _, e := range x {
			if n := depth(e); n > d {
				d = n
			}
		}
		return d + 1
	case map[string]interface{}:
		for _, e := range x {
			if n := depth(e); n > d {
				d = n
			}
		}
		return d + 1
	}
	return 0
}
