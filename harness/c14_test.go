package harness

// C14 — documents, patches and their byte encodings round-trip.
// Oracle: round trips (document -> patches -> document; patch -> bytes -> patch) compared on canonical JSON;
// by-construction refusals (document with id, bytes lacking action / value member).

import (
	"strings"
	"testing"

	"github.com/trustbloc/sidetree-go/pkg/document"
	"github.com/trustbloc/sidetree-go/pkg/patch"
	"github.com/trustbloc/sidetree-go/pkg/versions/1_0/doccomposer"
	"github.com/trustbloc/sidetree-go/pkg/versions/1_0/operationparser/patchvalidator"
	"pgregory.net/rapid"
)

var ordinaryNames = []string{"identifier", "name", "idx", "ids", "ID", "Id", "id2", "@contextual", "context", "alsoKnownAs2", "test", "x", "extra_1", "@meta", "Publi", "o", "p", "arr", "a-b", "Z9", "nested", "also", "keys", "_", "@", "0",
	// ordinary = free of JSON-pointer (/ ~) and quoting (" \ control) metacharacters; everything else is just a name
	"discount%", "a%%b", "50%off", "%s", "%d%v", "with space", "dot.name", "colon:name", "é", "名前", "a+b", "q?", "#hash", "a&b", "<tag>", "$ref", "[0]", "{x}", "a=b", "😀", "%", "100%"}

func genOrdinaryMembers(t *rapid.T, min, max int) map[string]interface{} {
	out := map[string]interface{}{}
	n := rapid.IntRange(min, max).Draw(t, "nordinary")
	for i := 0; i < n; i++ {
		var name string
		if rapid.Bool().Draw(t, "sampledName") {
			name = rapid.SampledFrom(ordinaryNames).Draw(t, "ordinaryName")
		} else {
			name = rapid.StringMatching(`[A-Za-z0-9_@%. :+?#&<>$=-]{1,12}`).Draw(t, "ordinaryName")
		}
		if len(name) >= 7 && name[:7] == "service" || len(name) >= 9 && name[:9] == "publicKey" || name == "id" || name == "alsoKnownAs" {
			continue
		}
		out[name] = genValueTree(t, 1, 3, 3, &valueInfo{})
	}
	return out
}

var valueKeyOf = map[string]string{"add-public-keys": "publicKeys", "remove-public-keys": "ids", "add-services": "services",
	"remove-services": "ids", "ietf-json-patch": "patches", "replace": "document", "add-also-known-as": "uris", "remove-also-known-as": "uris"}

func patchCanon(p patch.Patch) string {
	rt, err := jsonRoundTrip(p)
	if err != nil {
		return "ERR:" + err.Error()
	}
	return refJCS(rt)
}

// checkPatchEncoding: serialize, parse back, accessors agree with the content.
func checkPatchEncoding(t *rapid.T, p patch.Patch, wantAction string, wantValue interface{}) {
	b, err := p.Bytes()
	if err != nil {
		t.Fatalf("C14 Bytes(): %v", err)
	}
	// the bytes belong to the caller: serializing again, or serializing something else, leaves them alone
	snapshot := string(b)
	b2, _ := p.Bytes()
	_, _ = patch.Patch{"action": "remove-services", "ids": []interface{}{"unrelated-patch-serialized-in-between"}}.Bytes()
	_, _ = document.Document{"unrelated": "document serialized in between", "pad": snapshot + snapshot}.Bytes()
	if string(b) != snapshot || string(b2) != snapshot {
		t.Fatalf("C14 bytes returned by Bytes() changed while other values were serialized:\n first  %s\n now    %s\n second %s", snapshot, b, b2)
	}
	back, err := patch.FromBytes(b)
	if err != nil {
		t.Fatalf("C14 FromBytes(Bytes(p)) failed: %v\n %s", err, b)
	}
	if patchCanon(back) != patchCanon(p) {
		t.Fatalf("C14 patch changed by the byte round trip:\n before %s\n after  %s", patchCanon(p), patchCanon(back))
	}
	for _, q := range []patch.Patch{p, back} {
		a, err := q.GetAction()
		if err != nil || string(a) != wantAction {
			t.Fatalf("C14 GetAction = %q (%v) want %q", a, err, wantAction)
		}
		v, err := q.GetValue()
		if err != nil {
			t.Fatalf("C14 GetValue: %v", err)
		}
		rt, _ := jsonRoundTrip(v)
		under, _ := jsonRoundTrip(q[patch.Key(valueKeyOf[wantAction])])
		if refJCS(rt) != refJCS(under) {
			t.Fatalf("C14 GetValue does not return the member %q: %s vs %s", valueKeyOf[wantAction], refJCS(rt), refJCS(under))
		}
		if wantValue != nil && refJCS(rt) != refJCS(wantValue) {
			t.Fatalf("C14 %s value = %s want %s", wantAction, refJCS(rt), refJCS(wantValue))
		}
	}
	if err := patchvalidator.Validate(p); err != nil {
		t.Fatalf("C14 constructor output does not validate: %v\n %s", err, patchCanon(p))
	}
	if err := patchvalidator.Validate(back); err != nil {
		t.Fatalf("C14 parsed-back patch does not validate: %v\n %s", err, patchCanon(back))
	}
}

func TestC14_DocumentRoundTrip(t *testing.T) {
	st := statsFor("C14")
	composer := doccomposer.New()
	check(t, "C14", 3000, func(t *rapid.T) {
		doc := genOrdinaryMembers(t, 0, 4)
		members := 0
		if rapid.IntRange(0, 4).Draw(t, "hasKeys") > 0 {
			doc["publicKey"] = genKeyList(t, 1, 4, false)
			members++
		}
		if rapid.IntRange(0, 4).Draw(t, "hasSvcs") > 0 {
			doc["service"] = genServiceList(t, 1, 3)
			members++
		}
		if rapid.IntRange(0, 4).Draw(t, "hasAka") > 0 {
			doc["alsoKnownAs"] = genURIList(t, 1, 3)
			members++
		}
		if len(doc) == 0 {
			doc["name"] = "v"
		}
		text := spell(t, doc, rapid.IntRange(0, 1).Draw(t, "style"))
		patches, err := patch.PatchesFromDocument(text)
		if err != nil {
			t.Fatalf("C14 PatchesFromDocument refused a document without id: %v\n%s", err, text)
		}
		for _, p := range patches {
			a, _ := p.GetAction()
			checkPatchEncoding(t, p, string(a), nil)
		}
		empty := make(document.Document)
		got, err := composer.ApplyPatches(empty, patches)
		if err != nil {
			t.Fatalf("C14 applying the patches of a document failed: %v\n%s", err, text)
		}
		// the empty document the patches were applied to is still empty (it is the caller's, and good for the next conversion)
		if len(empty) != 0 {
			t.Fatalf("C14 the empty document handed to ApplyPatches now holds %s", docCanon(empty))
		}
		if g, w := docCanon(got), refJCS(normalizeDoc(doc)); g != w {
			t.Fatalf("C14 document -> patches -> document is not the identity\n doc  %s\n got  %s", w, g)
		}
		// the same patches through their byte encoding
		var reparsed []patch.Patch
		var kept [][]byte
		for _, p := range patches {
			b, _ := p.Bytes()
			kept = append(kept, b)
		}
		for _, b := range kept { // all serialized first, parsed afterwards
			q, err := patch.FromBytes(b)
			if err != nil {
				t.Fatalf("C14 FromBytes: %v", err)
			}
			reparsed = append(reparsed, q)
		}
		got2, err := composer.ApplyPatches(make(document.Document), reparsed)
		if err != nil || docCanon(got2) != refJCS(normalizeDoc(doc)) {
			t.Fatalf("C14 re-parsed patches give %s (%v) want %s", docCanon(got2), err, refJCS(normalizeDoc(doc)))
		}
		// a document carrying an id is refused
		withID := deepCopyValue(doc).(map[string]interface{})
		withID["id"] = rapid.SampledFrom([]string{"did:example:123", " ", "\t", "\n", "\u00a0", "\u2003 ", "x", "#", "0", "null"}).Draw(t, "strayID")
		if _, err := patch.PatchesFromDocument(refJCS(withID)); err == nil {
			t.Fatalf("C14 PatchesFromDocument accepted a document with id %q", withID["id"])
		}
		other := len(doc) - members
		nested := false
		for k, v := range doc {
			if k != "publicKey" && k != "service" && k != "alsoKnownAs" && depth(v) >= 1 {
				nested = true
			}
		}
		nontrivial := members == 3 && other >= 2 && nested
		st.Case(nontrivial, refJCS(doc), "doc-roundtrip", "dedicated-members-"+itoa(members))
		st.Sample("document", 2, func() interface{} { return map[string]interface{}{"document": doc, "patches": len(patches)} })
	})
}

func TestC14_Constructors(t *testing.T) {
	st := statsFor("C14")
	check(t, "C14", 4000, func(t *rapid.T) {
		action := rapid.SampledFrom(allActions).Draw(t, "action")
		var p patch.Patch
		var err error
		var want interface{}
		style := rapid.IntRange(0, 1).Draw(t, "style")
		switch action {
		case "add-public-keys":
			v := genKeyList(t, 1, 4, false)
			want = v
			p, err = patch.NewAddPublicKeysPatch(spell(t, v, style))
		case "remove-public-keys":
			v := toIfaceList(genUniqueIDs(t, 1, 4, "id"))
			want = v
			p, err = patch.NewRemovePublicKeysPatch(spell(t, v, style))
		case "add-services":
			v := genServiceList(t, 1, 3)
			want = v
			p, err = patch.NewAddServiceEndpointsPatch(spell(t, v, style))
		case "remove-services":
			v := toIfaceList(genUniqueIDs(t, 1, 4, "id"))
			want = v
			p, err = patch.NewRemoveServiceEndpointsPatch(spell(t, v, style))
		case "add-also-known-as":
			v := genURIList(t, 1, 4)
			want = v
			p, err = patch.NewAddAlsoKnownAs(spell(t, v, style))
		case "remove-also-known-as":
			v := genURIList(t, 1, 4)
			want = v
			p, err = patch.NewRemoveAlsoKnownAs(spell(t, v, style))
		case "replace":
			d := map[string]interface{}{}
			if rapid.Bool().Draw(t, "keys") {
				d["publicKeys"] = genKeyList(t, 0, 3, false)
			}
			if rapid.Bool().Draw(t, "svcs") {
				d["services"] = genServiceList(t, 0, 2)
			}
			want = d
			p, err = patch.NewReplacePatch(spell(t, d, style))
		case "ietf-json-patch":
			doc := genOrdinaryMembers(t, 1, 3)
			var ops []interface{}
			for i, n := 0, rapid.IntRange(1, 3).Draw(t, "nops"); i < n; i++ {
				op := genOp6902(t, doc, true)
				// valid input: well-formed JSON pointers (RFC 6901)
				for _, f := range []string{"path", "from"} {
					if v, ok := op[f].(string); ok && !strings.HasPrefix(v, "/") {
						op[f] = "/name"
					}
				}
				ops = append(ops, op)
			}
			want = ops
			p, err = patch.NewJSONPatch(spell(t, ops, style))
		}
		if err != nil {
			t.Fatalf("C14 constructor for %s refused valid input: %v (%s)", action, err, refJCS(want))
		}
		checkPatchEncoding(t, p, action, want)

		// bytes lacking a supported action or that action's value member are not a patch
		b, _ := p.Bytes()
		m := mustObj(string(b))
		mut := rapid.IntRange(0, 6).Draw(t, "mut")
		label := ""
		switch mut {
		case 0:
			delete(m, "action")
			label = "no-action"
		case 1:
			m["action"] = rapid.SampledFrom([]string{"", "add-keys", "Replace", "ietf-json-patch ", "remove"}).Draw(t, "badAction")
			label = "unsupported-action"
		case 2:
			delete(m, valueKeyOf[action])
			label = "no-value-member"
		case 3:
			// value under another action's key
			v := m[valueKeyOf[action]]
			delete(m, valueKeyOf[action])
			for _, k := range []string{"publicKeys", "ids", "services", "patches", "document", "uris"} {
				if k != valueKeyOf[action] {
					m[k] = v
					break
				}
			}
			label = "value-under-wrong-key"
		case 5:
			// the action member only under a name in another letter case: that is not the member
			v := m["action"]
			delete(m, "action")
			m[rapid.SampledFrom([]string{"Action", "ACTION", "aCtion", "action "}).Draw(t, "actionCase")] = v
			label = "action-in-other-case"
		case 6:
			k := valueKeyOf[action]
			v := m[k]
			delete(m, k)
			m[rapid.SampledFrom([]string{strings.ToUpper(k[:1]) + k[1:], strings.ToUpper(k), k + " "}).Draw(t, "valueCase")] = v
			label = "value-member-in-other-case"
		default:
			m["action"] = float64(1)
			label = "action-not-string"
		}
		if q, err := patch.FromBytes([]byte(refJCS(m))); err == nil {
			t.Fatalf("C14 FromBytes accepted %s: %s -> %s", label, refJCS(m), patchCanon(q))
		}
		st.Case(true, action+"|"+refJCS(want)+"|"+label, "constructor-"+action, "reject-"+label)
		st.Sample("patch-"+action, 1, func() interface{} {
			return map[string]interface{}{"patch": mustJSON(string(b)), "refused": m, "why": label}
		})
	})
}
