package harness

// Independent reference models: RFC 8785 serializer, ECMAScript Number::toString, multihash / commitment.
// Nothing in this file calls into sidetree-go.

import (
	"crypto/sha256"
	"crypto/sha512"
	"encoding/base64"
	"fmt"
	"math"
	"sort"
	"strconv"
	"strings"
	"unicode/utf16"
)

// refES6 formats a finite double as ECMAScript Number::toString does (RFC 8785 section 3.2.2.3).
func refES6(f float64) string {
	if f == 0 {
		return "0"
	}
	if math.IsNaN(f) || math.IsInf(f, 0) {
		panic("refES6: not finite")
	}
	sign := ""
	if f < 0 {
		sign = "-"
		f = -f
	}
	// shortest round-trip digits in scientific form d.ddddde±xx
	sci := strconv.FormatFloat(f, 'e', -1, 64)
	mant, expStr, _ := strings.Cut(sci, "e")
	exp, err := strconv.Atoi(expStr)
	if err != nil {
		panic(err)
	}
	digits := strings.Replace(mant, ".", "", 1)
	k := len(digits)
	n := exp + 1 // position of the decimal point relative to the digit string
	var out string
	switch {
	case k <= n && n <= 21:
		out = digits + strings.Repeat("0", n-k)
	case 0 < n && n <= 21:
		out = digits[:n] + "." + digits[n:]
	case -6 < n && n <= 0:
		out = "0." + strings.Repeat("0", -n) + digits
	default:
		e := n - 1
		es := "+"
		if e < 0 {
			es = "-"
			e = -e
		}
		if k == 1 {
			out = digits + "e" + es + strconv.Itoa(e)
		} else {
			out = digits[:1] + "." + digits[1:] + "e" + es + strconv.Itoa(e)
		}
	}
	return sign + out
}

// refJCSString serializes a string with the minimal escaping of RFC 8785 section 3.2.2.2.
func refJCSString(sb *strings.Builder, s string) {
	sb.WriteByte('"')
	for _, r := range s {
		switch r {
		case '"':
			sb.WriteString(`\"`)
		case '\\':
			sb.WriteString(`\\`)
		case '\b':
			sb.WriteString(`\b`)
		case '\f':
			sb.WriteString(`\f`)
		case '\n':
			sb.WriteString(`\n`)
		case '\r':
			sb.WriteString(`\r`)
		case '\t':
			sb.WriteString(`\t`)
		default:
			if r < 0x20 {
				sb.WriteString(fmt.Sprintf(`\u%04x`, r))
			} else {
				sb.WriteRune(r)
			}
		}
	}
	sb.WriteByte('"')
}

func utf16Less(a, b string) bool {
	ua, ub := utf16.Encode([]rune(a)), utf16.Encode([]rune(b))
	for i := 0; i < len(ua) && i < len(ub); i++ {
		if ua[i] != ub[i] {
			return ua[i] < ub[i]
		}
	}
	return len(ua) < len(ub)
}

func refJCSValue(sb *strings.Builder, v interface{}) {
	switch x := v.(type) {
	case nil:
		sb.WriteString("null")
	case bool:
		if x {
			sb.WriteString("true")
		} else {
			sb.WriteString("false")
		}
	case float64:
		sb.WriteString(refES6(x))
	case int:
		sb.WriteString(refES6(float64(x)))
	case int64:
		sb.WriteString(refES6(float64(x)))
	case uint64:
		sb.WriteString(refES6(float64(x)))
	case string:
		refJCSString(sb, x)
	case []interface{}:
		sb.WriteByte('[')
		for i, e := range x {
			if i > 0 {
				sb.WriteByte(',')
			}
			refJCSValue(sb, e)
		}
		sb.WriteByte(']')
	case []string:
		sb.WriteByte('[')
		for i, e := range x {
			if i > 0 {
				sb.WriteByte(',')
			}
			refJCSString(sb, e)
		}
		sb.WriteByte(']')
	case map[string]interface{}:
		keys := make([]string, 0, len(x))
		for k := range x {
			keys = append(keys, k)
		}
		sort.Slice(keys, func(i, j int) bool { return utf16Less(keys[i], keys[j]) })
		sb.WriteByte('{')
		for i, k := range keys {
			if i > 0 {
				sb.WriteByte(',')
			}
			refJCSString(sb, k)
			sb.WriteByte(':')
			refJCSValue(sb, x[k])
		}
		sb.WriteByte('}')
	default:
		panic(fmt.Sprintf("refJCS: unsupported type %T", v))
	}
}

// refJCS returns the RFC 8785 canonical form of a JSON value tree (maps, slices, strings, float64, bool, nil).
func refJCS(v interface{}) string {
	var sb strings.Builder
	refJCSValue(&sb, v)
	return sb.String()
}

// ---- multihash ----

func uvarint(x uint64) []byte {
	var out []byte
	for x >= 0x80 {
		out = append(out, byte(x)|0x80)
		x >>= 7
	}
	return append(out, byte(x))
}

func b64(b []byte) string { return base64.RawURLEncoding.EncodeToString(b) }

func refDigest(alg uint, data []byte) []byte {
	switch alg {
	case 18:
		d := sha256.Sum256(data)
		return d[:]
	case 19:
		d := sha512.Sum512(data)
		return d[:]
	}
	panic(fmt.Sprintf("refDigest: alg %d", alg))
}

// refMultihashBytes = varint(code) || varint(len) || digest.
func refMultihashBytes(alg uint, digest []byte) []byte {
	out := append(uvarint(uint64(alg)), uvarint(uint64(len(digest)))...)
	return append(out, digest...)
}

// refHashBytes is the encoded multihash of raw bytes.
func refHashBytes(alg uint, data []byte) string {
	return b64(refMultihashBytes(alg, refDigest(alg, data)))
}

// refHash is the model multihash: b64url(multihash(alg, H(JCS(v)))).
func refHash(v interface{}, alg uint) string {
	return refHashBytes(alg, []byte(refJCS(v)))
}

// refCommitmentOf is the commitment of a JSON value (a JWK): multihash of the hash of its canonical form.
func refCommitmentOf(v interface{}, alg uint) string {
	return b64(refMultihashBytes(alg, refDigest(alg, refDigest(alg, []byte(refJCS(v))))))
}
