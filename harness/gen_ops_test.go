package harness

// Operation requests assembled from first principles (own JCS, SHA-2, multihash framing, base64url, compact JWS) —
// not with the library's builders — plus protocol configurations and library component constructors.

import (
	"fmt"
	"github.com/trustbloc/sidetree-go/pkg/api/operation"
	"github.com/trustbloc/sidetree-go/pkg/api/protocol"
	"github.com/trustbloc/sidetree-go/pkg/versions/1_0/doccomposer"
	"github.com/trustbloc/sidetree-go/pkg/versions/1_0/operationapplier"
	"github.com/trustbloc/sidetree-go/pkg/versions/1_0/operationparser"
	"pgregory.net/rapid"
)

var allSigAlgs = []string{"EdDSA", "ES256", "ES384", "ES512", "ES256K"}
var allCurves = []string{"Ed25519", "P-256", "P-384", "P-521", "secp256k1"}

func wideProtocol() protocol.Protocol {
	return protocol.Protocol{
		GenesisTime:                  0,
		MultihashAlgorithms:          []uint{18, 19},
		MaxOperationCount:            10000,
		MaxOperationSize:             400000,
		MaxOperationHashLength:       100,
		MaxDeltaSize:                 200000,
		MaxCasURILength:              500,
		CompressionAlgorithm:         "GZIP",
		MaxChunkFileSize:             10000000,
		MaxProvisionalIndexFileSize:  1000000,
		MaxCoreIndexFileSize:         1000000,
		MaxProofFileSize:             2500000,
		Patches:                      append([]string{}, allActions...),
		SignatureAlgorithms:          append([]string{}, allSigAlgs...),
		KeyAlgorithms:                append([]string{}, allCurves...),
		MaxOperationTimeDelta:        600,
		NonceSize:                    16,
		MaxMemoryDecompressionFactor: 3,
	}
}

type libStack struct {
	P        protocol.Protocol
	Parser   *operationparser.Parser
	Composer *doccomposer.DocumentComposer
	Applier  *operationapplier.Applier
}

func newStack(p protocol.Protocol, opts ...operationparser.Option) *libStack {
	parser := operationparser.New(p, opts...)
	dc := doccomposer.New()
	return &libStack{P: p, Parser: parser, Composer: dc, Applier: operationapplier.New(p, parser, dc)}
}

// opBuild holds the parts of a request so that tamperers can change one part and re-assemble.
type opBuild struct {
	Type       string
	Alg        uint // multihash algorithm used for the hashes inside this request
	Suffix     string
	SignKey    *Key
	Header     map[string]interface{}
	Signed     map[string]interface{}
	Delta      map[string]interface{}
	SuffixData map[string]interface{}
	Reveal     string
	JWS        string
	Req        map[string]interface{}
	Patches    []interface{}
	NextUpdate *Key
	NextRecov  *Key
	From       int64
	Until      int64
	Origin     interface{}
}

func newDelta(alg uint, nextUpdate *Key, patches []interface{}) map[string]interface{} {
	return map[string]interface{}{"updateCommitment": nextUpdate.Commitment(alg), "patches": patches}
}

func withWindow(m map[string]interface{}, from, until int64) {
	if from != 0 {
		m["anchorFrom"] = float64(from)
	}
	if until != 0 {
		m["anchorUntil"] = float64(until)
	}
}

func newCreate(alg uint, recovery, update *Key, patches []interface{}, origin interface{}, typ string) *opBuild {
	b := &opBuild{Type: "create", Alg: alg, NextUpdate: update, NextRecov: recovery, Patches: patches, Origin: origin}
	b.Delta = newDelta(alg, update, patches)
	b.SuffixData = map[string]interface{}{"deltaHash": refHash(b.Delta, alg), "recoveryCommitment": recovery.Commitment(alg)}
	if origin != nil {
		b.SuffixData["anchorOrigin"] = origin
	}
	if typ != "" {
		b.SuffixData["type"] = typ
	}
	b.assemble()
	return b
}

// suffixFor is the unique suffix under a protocol whose first multihash algorithm is alg0.
func (b *opBuild) suffixFor(alg0 uint) string { return refHash(b.SuffixData, alg0) }

func newUpdate(alg uint, suffix string, signKey, nextUpdate *Key, patches []interface{}, from, until int64) *opBuild {
	b := &opBuild{Type: "update", Alg: alg, Suffix: suffix, SignKey: signKey, NextUpdate: nextUpdate, Patches: patches, From: from, Until: until}
	b.Delta = newDelta(alg, nextUpdate, patches)
	b.Signed = map[string]interface{}{"updateKey": signKey.JWKValue(), "deltaHash": refHash(b.Delta, alg)}
	withWindow(b.Signed, from, until)
	b.Header = map[string]interface{}{"alg": signKey.Type.Alg()}
	b.Reveal = signKey.Reveal(alg)
	b.sign()
	b.assemble()
	return b
}

func newRecover(alg uint, suffix string, signKey, nextRecovery, nextUpdate *Key, patches []interface{}, origin interface{}, from, until int64) *opBuild {
	b := &opBuild{Type: "recover", Alg: alg, Suffix: suffix, SignKey: signKey, NextUpdate: nextUpdate, NextRecov: nextRecovery,
		Patches: patches, From: from, Until: until, Origin: origin}
	b.Delta = newDelta(alg, nextUpdate, patches)
	b.Signed = map[string]interface{}{"recoveryKey": signKey.JWKValue(), "deltaHash": refHash(b.Delta, alg),
		"recoveryCommitment": nextRecovery.Commitment(alg)}
	if origin != nil {
		b.Signed["anchorOrigin"] = origin
	}
	withWindow(b.Signed, from, until)
	b.Header = map[string]interface{}{"alg": signKey.Type.Alg()}
	b.Reveal = signKey.Reveal(alg)
	b.sign()
	b.assemble()
	return b
}

func newDeactivate(alg uint, suffix string, signKey *Key, from, until int64) *opBuild {
	b := &opBuild{Type: "deactivate", Alg: alg, Suffix: suffix, SignKey: signKey, From: from, Until: until}
	b.Signed = map[string]interface{}{"didSuffix": suffix, "recoveryKey": signKey.JWKValue()}
	withWindow(b.Signed, from, until)
	b.Header = map[string]interface{}{"alg": signKey.Type.Alg()}
	b.Reveal = signKey.Reveal(alg)
	b.sign()
	b.assemble()
	return b
}

// sign (re-)signs the canonical signed payload with SignKey under Header.
func (b *opBuild) sign() {
	b.JWS = signCompact(b.SignKey, b.Header, []byte(refJCS(b.Signed)), 0)
}

// signText signs the given text as payload (a spelling of the signed data other than the canonical one).
func (b *opBuild) signText(payload []byte) {
	b.JWS = signCompact(b.SignKey, b.Header, payload, 0)
}

// replacePayload keeps the existing signature and header segment but swaps in the current signed payload
// ("re-encoded without re-signing").
func (b *opBuild) replacePayload() {
	h, _, s, ok := splitCompact(b.JWS)
	if !ok {
		panic("replacePayload: malformed JWS")
	}
	b.JWS = compactJWS(string(h), []byte(refJCS(b.Signed)), s)
}

// assemble rebuilds the request object from the parts.
func (b *opBuild) assemble() {
	switch b.Type {
	case "create":
		b.Req = map[string]interface{}{"type": "create", "suffixData": b.SuffixData}
		if b.Delta != nil {
			b.Req["delta"] = b.Delta
		}
	case "update", "recover":
		b.Req = map[string]interface{}{"type": b.Type, "didSuffix": b.Suffix, "revealValue": b.Reveal, "signedData": b.JWS}
		if b.Delta != nil {
			b.Req["delta"] = b.Delta
		}
	case "deactivate":
		b.Req = map[string]interface{}{"type": b.Type, "didSuffix": b.Suffix, "revealValue": b.Reveal, "signedData": b.JWS}
	}
}

func (b *opBuild) bytes() []byte { return []byte(refJCS(b.Req)) }

func (b *opBuild) clone() *opBuild {
	c := *b
	if b.Header != nil {
		c.Header = deepCopyValue(b.Header).(map[string]interface{})
	}
	if b.Signed != nil {
		c.Signed = deepCopyValue(b.Signed).(map[string]interface{})
	}
	if b.Delta != nil {
		c.Delta = deepCopyValue(b.Delta).(map[string]interface{})
	}
	if b.SuffixData != nil {
		c.SuffixData = deepCopyValue(b.SuffixData).(map[string]interface{})
	}
	if b.Req != nil {
		c.Req = deepCopyValue(b.Req).(map[string]interface{})
	}
	return &c
}

// ---- anchoring metadata ----

type anchorMeta struct {
	Time, Number, Version uint64
	Canonical             string
	Equivalent            []string
	Origin                interface{}
}

func genMeta(t *rapid.T) anchorMeta {
	m := anchorMeta{}
	if rapid.IntRange(0, 5).Draw(t, "hugeTime") == 0 {
		m.Time = rapid.Uint64Range(1<<40, 1<<50).Draw(t, "time")
	} else {
		m.Time = uint64(rapid.IntRange(0, 12).Draw(t, "time"))
	}
	m.Number = uint64(rapid.IntRange(0, 5).Draw(t, "number"))
	if rapid.IntRange(0, 5).Draw(t, "hugeNumber") == 0 {
		m.Number = rapid.Uint64().Draw(t, "numberHuge")
	}
	m.Version = uint64(rapid.IntRange(0, 3).Draw(t, "version"))
	m.Canonical = rapid.SampledFrom([]string{"", "uEiCanon1", "uEiCanon2", "ref3"}).Draw(t, "canonical")
	switch rapid.IntRange(0, 3).Draw(t, "equiv") {
	case 1:
		m.Equivalent = []string{}
	case 2:
		m.Equivalent = []string{"eq1"}
	case 3:
		m.Equivalent = []string{"eq1", "hl:eq2", "eq1"}
	}
	m.Origin = genOrigin(t)
	return m
}

func genOrigin(t *rapid.T) interface{} {
	switch rapid.IntRange(0, 4).Draw(t, "origin") {
	case 0:
		return nil
	case 1:
		return "origin.example"
	case 2:
		return "https://anchor.example/services/orb"
	case 3:
		return map[string]interface{}{"url": "https://o.example", "n": float64(2)}
	default:
		return []interface{}{"a", "b"}
	}
}

func anchored(b *opBuild, suffix string, m anchorMeta) *operation.AnchoredOperation {
	return anchoredBytes(b.Type, b.bytes(), suffix, m)
}

func anchoredBytes(typ string, req []byte, suffix string, m anchorMeta) *operation.AnchoredOperation {
	return &operation.AnchoredOperation{
		Type: operation.Type(typ), UniqueSuffix: suffix, OperationRequest: req,
		TransactionTime: m.Time, TransactionNumber: m.Number, ProtocolVersion: m.Version,
		CanonicalReference: m.Canonical, EquivalentReferences: m.Equivalent, AnchorOrigin: m.Origin,
	}
}

// ---- small valid patch lists for operations ----

// genOpPatches draws 1-3 validated patches (dedicated actions plus RFC-valid ietf operations) against doc, returning the
// patch values and the reference result. Patches are applicable by construction.
func genOpPatches(t *rapid.T, doc map[string]interface{}, allowIetf bool, st *propStats) ([]interface{}, map[string]interface{}) {
	ref := deepCopyValue(doc).(map[string]interface{})
	n := rapid.IntRange(1, 3).Draw(t, "npatches")
	var out []interface{}
	for i := 0; i < n; i++ {
		action := rapid.SampledFrom(allActions).Draw(t, "action")
		var p map[string]interface{}
		if action == "ietf-json-patch" {
			if allowIetf {
				p, _ = genValidIetfPatch(t, ref, st)
			}
			if p == nil {
				action = "add-public-keys"
			}
		}
		if allowIetf && rapid.IntRange(0, 7).Draw(t, "strayExternalMember") == 0 {
			// members that only documents handed in from outside may not carry ("id", "@context") are ordinary members when a
			// JSON patch adds them
			p = map[string]interface{}{"action": "ietf-json-patch", "patches": []interface{}{map[string]interface{}{"op": "add",
				"path": rapid.SampledFrom([]string{"/id", "/@context", "/id"}).Draw(t, "strayName"), "value": rapid.SampledFrom([]interface{}{"did:example:stray", []interface{}{"https://www.w3.org/ns/did/v1"}}).Draw(t, "strayValue")}}}
		}
		if p == nil {
			p = genDedicatedPatch(t, action, ref, true)
		}
		next, err := refComposeOne(ref, p)
		if err != nil {
			panic("genOpPatches: reference composer failed: " + err.Error())
		}
		ref = next
		out = append(out, p)
	}
	return out, ref
}

// nearTwins are pairs of different JSON values that sloppy canonical forms, conversions or comparisons conflate: integers
// beyond uint64 / int64 / 2^53 / uint32, sign and fraction loss, small exponents, Unicode normal forms, C-string
// truncation, letter case, trailing blanks, values and the strings spelling them, empty containers.
var nearTwins = [][2]interface{}{
	{18446744073709551616.0, 2e19}, {9223372036854775808.0, 1e19}, {1e20, 3e20}, {9007199254740992.0, 9007199254740994.0}, {4294967301.0, 5.0},
	{-5.0, 5.0}, {1.5, 1.0}, {1e-7, 1e-8}, {0.1, 0.10000000000000002}, {1e21, 1e22}, {123456789012345680000.0, 123456789012345700000.0},
	{"é", "é"}, {"a\u0000b", "a"}, {"\U0001f600", "�"}, {"A", "a"}, {"x ", "x"}, {" ", "\n"}, {"<&>", "\\u003c\\u0026\\u003e"},
	{nil, "null"}, {true, "true"}, {1.0, "1"}, {[]interface{}{}, map[string]interface{}{}}, {[]interface{}{1.0}, 1.0}, {nil, false},
}

// genDeltaTwin draws one extra patch in two forms: a valid one (for the delta that is hashed / signed) and a twin that is a
// different value (for the delta that is sent instead). The twins are what a parser that normalises while it validates
// - filters nulls, removes duplicates, sorts, converts numbers - would make equal.
func genDeltaTwin(t *rapid.T, enabled []string) (valid, twin map[string]interface{}, how string) {
	has := func(a string) bool {
		for _, e := range enabled {
			if e == a {
				return true
			}
		}
		return false
	}
	var kinds []string
	if has("remove-public-keys") || has("remove-services") {
		kinds = append(kinds, "ids-null-for-duplicate", "ids-duplicate-dropped", "ids-null-appended", "ids-null-in-front")
	}
	if has("add-also-known-as") {
		kinds = append(kinds, "uris-reordered", "uris-null-appended")
	}
	if has("add-services") {
		kinds = append(kinds, "service-member-twin", "service-member-twin", "service-member-twin")
	}
	if has("ietf-json-patch") {
		kinds = append(kinds, "ietf-null-for-duplicate", "ietf-value-twin")
	}
	if len(kinds) == 0 {
		return nil, nil, ""
	}
	how = rapid.SampledFrom(kinds).Draw(t, "twinKind")
	removeAction := "remove-public-keys"
	if !has(removeAction) || (has("remove-services") && rapid.Bool().Draw(t, "twinRemoveServices")) {
		removeAction = "remove-services"
	}
	ids := func(l ...interface{}) map[string]interface{} {
		return map[string]interface{}{"action": removeAction, "ids": l}
	}
	pair := nearTwins[rapid.IntRange(0, len(nearTwins)-1).Draw(t, "twinValues")]
	a, b := pair[0], pair[1]
	if rapid.Bool().Draw(t, "twinSwapped") {
		a, b = b, a
	}
	switch how {
	case "ids-null-for-duplicate":
		return ids("twin0", "twin0"), ids(nil, "twin0"), how
	case "ids-duplicate-dropped":
		return ids("twin0", "twin0"), ids("twin0"), how
	case "ids-null-appended":
		return ids("twin0"), ids("twin0", nil), how
	case "ids-null-in-front":
		return ids("twin0"), ids(nil, "twin0"), how
	case "uris-reordered":
		return map[string]interface{}{"action": "add-also-known-as", "uris": []interface{}{"https://twin.example/b", "https://twin.example/a"}},
			map[string]interface{}{"action": "add-also-known-as", "uris": []interface{}{"https://twin.example/a", "https://twin.example/b"}}, how
	case "uris-null-appended":
		return map[string]interface{}{"action": "add-also-known-as", "uris": []interface{}{"https://twin.example/a"}},
			map[string]interface{}{"action": "add-also-known-as", "uris": []interface{}{"https://twin.example/a", nil}}, how
	case "service-member-twin":
		svc := func(v interface{}) map[string]interface{} {
			return map[string]interface{}{"action": "add-services", "services": []interface{}{
				map[string]interface{}{"id": "twin0", "type": "Twin", "serviceEndpoint": "https://twin.example/", "weight": v}}}
		}
		return svc(a), svc(b), how + fmt.Sprintf("(%v|%v)", a, b)
	case "ietf-null-for-duplicate":
		op := map[string]interface{}{"op": "add", "path": "/twin", "value": "v"}
		return map[string]interface{}{"action": "ietf-json-patch", "patches": []interface{}{op, op}},
			map[string]interface{}{"action": "ietf-json-patch", "patches": []interface{}{nil, op}}, how
	default:
		op := func(v interface{}) map[string]interface{} {
			return map[string]interface{}{"action": "ietf-json-patch", "patches": []interface{}{map[string]interface{}{"op": "add", "path": "/twin", "value": v}}}
		}
		return op(a), op(b), how + fmt.Sprintf("(%v|%v)", a, b)
	}
}
