package harness

// C20 — shared components are safe for concurrent use.
// Oracles: (1) the Go race detector (this file is meant to run in the -race build; any report fails the run);
// (2) every concurrent call returns what the same call returned sequentially beforehand; (3) the call/return history of the
// two registries is checked for linearizability against a map model with porcupine.
// Schedules are sampled (many workloads x GOMAXPROCS x goroutine counts), not enumerated.

import (
	"encoding/json"
	"fmt"
	"github.com/trustbloc/sidetree-go/pkg/patch"
	"github.com/trustbloc/sidetree-go/pkg/versions/1_0/operationparser/patchvalidator"
	"runtime"
	"sort"
	"strings"
	"sync"
	"sync/atomic"
	"testing"
	"time"

	"github.com/anishathalye/porcupine"
	docdid "github.com/trustbloc/did-go/doc/did"
	vdrapi "github.com/trustbloc/did-go/vdr/api"
	"pgregory.net/rapid"

	"github.com/trustbloc/sidetree-go/pkg/api/operation"
	"github.com/trustbloc/sidetree-go/pkg/api/protocol"
	"github.com/trustbloc/sidetree-go/pkg/canonicalizer"
	"github.com/trustbloc/sidetree-go/pkg/hashing"
	longform "github.com/trustbloc/sidetree-go/pkg/vdr/sidetreelongform"
	"github.com/trustbloc/sidetree-go/pkg/vdr/sidetreelongform/dochandler"
	"github.com/trustbloc/sidetree-go/pkg/vdr/sidetreelongform/dochandler/protocol/nsprovider"
	"github.com/trustbloc/sidetree-go/pkg/vdr/sidetreelongform/dochandler/protocol/verprovider"
	"github.com/trustbloc/sidetree-go/pkg/vdr/sidetreelongform/dochandler/protocolversion/clientregistry"
	vcommon "github.com/trustbloc/sidetree-go/pkg/vdr/sidetreelongform/dochandler/protocolversion/versions/common"
	"github.com/trustbloc/sidetree-go/pkg/versions/1_0/doctransformer/didtransformer"
)

type c20Call struct {
	kind string
	run  func() string // executes the call on the shared components and returns a digest of result / error
}

func digest(v interface{}, err error) string {
	if err != nil {
		return "ERR:" + err.Error()
	}
	rt, jerr := jsonRoundTrip(v)
	if jerr != nil {
		return "JSONERR:" + jerr.Error()
	}
	return refJCS(rt)
}

func rmDigest(rm *protocol.ResolutionModel, err error) string {
	if err != nil {
		return "ERR:" + err.Error()
	}
	return fmt.Sprintf("%s|%s|%s|%v|%d|%d|%s|%s", docCanon(rm.Doc), rm.UpdateCommitment, rm.RecoveryCommitment, rm.Deactivated, rm.CreatedTime, rm.UpdatedTime,
		originCanon(rm.AnchorOrigin), rm.VersionID)
}

// hostile strings make shared scratch buffers visible: control characters, astral characters, long runs
var c20Origins = []interface{}{nil, "origin", "a\u0001b\u0002c\u001f", "\u0003\u0004\u0005\u0006\u0007", "\u000e\u000f\u0010\u0011", "é€\U0001f600", map[string]interface{}{"\u0001": "\u001e", "n": 1e21, "m": 1e-7},
	[]interface{}{"\u000b", "\u0012\u0013\u0014", 0.000001, 123456789012345680000.0}}

type c20Shared struct {
	stack                                                      *libStack
	handler                                                    *dochandler.DocumentHandler
	vdr                                                        *longform.VDR
	tr                                                         *didtransformer.Transformer
	inParse, inApply, inCompose, inTransform, inResolve, inVDR int32
	maxOverlap                                                 int32
}

func (s *c20Shared) enter(c *int32) {
	n := atomic.AddInt32(c, 1)
	for {
		m := atomic.LoadInt32(&s.maxOverlap)
		if n <= m || atomic.CompareAndSwapInt32(&s.maxOverlap, m, n) {
			break
		}
	}
}

func (s *c20Shared) leave(c *int32) { atomic.AddInt32(c, -1) }

// genC20Calls draws a workload of calls on distinct inputs.
func genC20Calls(t *rapid.T, s *c20Shared, n int) []c20Call {
	p := s.stack.P
	var calls []c20Call
	for i := 0; i < n; i++ {
		kind := rapid.SampledFrom([]string{"parse", "parse-invalid", "apply-create", "apply-update", "compose", "compose-copy-move", "compose-shared-patches", "construct", "transform", "resolve", "process", "vdr-create", "vdr-read", "canonicalize"}).Draw(t, "callKind")
		origin := rapid.SampledFrom(c20Origins).Draw(t, "origin")
		switch kind {
		case "parse", "parse-invalid":
			typ := rapid.SampledFrom([]string{"create", "update", "recover", "deactivate"}).Draw(t, "opType")
			classes := []string{"valid"}
			if kind == "parse-invalid" {
				classes = nil
			}
			c := genOpCase(t, typ, &opGenCtx{P: p, Doc: map[string]interface{}{}, Suffix: "EiAsuffix", St: statsFor("C20"), NoIetf: false, Classes: classes, Time: 3})
			raw := append([]byte{}, c.Bytes...)
			calls = append(calls, c20Call{kind, func() string {
				s.enter(&s.inParse)
				defer s.leave(&s.inParse)
				op, err := s.stack.Parser.Parse("did:sidetree", raw)
				if err != nil {
					return "ERR:" + err.Error()
				}
				rv, _ := s.stack.Parser.GetRevealValue(raw)
				cm, _ := s.stack.Parser.GetCommitment(raw)
				return fmt.Sprintf("%s|%s|%s|%s|%s|%s", op.Type, op.UniqueSuffix, op.ID, originCanon(op.AnchorOrigin), rv, cm)
			}})
		case "apply-create", "apply-update":
			rec, upd := genNoncedKey(t, p, "rec"), genNoncedKey(t, p, "upd")
			if kind == "apply-update" && rapid.Bool().Draw(t, "freshSigner") {
				// a key this process has never verified with: whatever a component remembers per key is first written in the
				// concurrent phase
				upd = genFreshKey(t, rapid.SampledFrom([]keyType{ktP256, ktSecp256k1, ktP384, ktEd25519}).Draw(t, "freshType"))
			}
			if rec.Commitment(18) == upd.Commitment(18) {
				upd = otherKey(t, rec)
			}
			patches, doc := genOpPatches(t, map[string]interface{}{}, true, statsFor("C20"))
			cr := newCreate(18, rec, upd, patches, origin, "")
			suffix := cr.suffixFor(p.MultihashAlgorithms[0])
			crBytes := cr.bytes()
			if kind == "apply-create" {
				calls = append(calls, c20Call{kind, func() string {
					s.enter(&s.inApply)
					defer s.leave(&s.inApply)
					return rmDigest(s.stack.Applier.Apply(anchoredBytes("create", crBytes, suffix, anchorMeta{Time: 2, Canonical: "c"}), &protocol.ResolutionModel{}))
				}})
				continue
			}
			// each update call owns its previous state (built sequentially, before the concurrent phase)
			prev, err := s.stack.Applier.Apply(anchoredBytes("create", crBytes, suffix, anchorMeta{Time: 2, Canonical: "c"}), &protocol.ResolutionModel{})
			if err != nil {
				t.Fatalf("harness: %v", err)
			}
			up, _ := genOpPatches(t, doc, true, statsFor("C20"))
			ub := newUpdate(18, suffix, upd, otherKey(t, upd), up, 0, 0).bytes()
			calls = append(calls, c20Call{kind, func() string {
				s.enter(&s.inApply)
				defer s.leave(&s.inApply)
				return rmDigest(s.stack.Applier.Apply(anchoredBytes("update", ub, suffix, anchorMeta{Time: 3, Canonical: "d"}), prev))
			}})
		case "construct":
			// components are not only shared, new ones are made while others are in use (a handler per namespace, a protocol
			// version per request): a freshly constructed stack / handler parses and resolves what the shared ones do
			cr := newCreate(18, genKey(t, "rec"), pool()[ktP256][2], []interface{}{map[string]interface{}{"action": "add-also-known-as", "uris": []interface{}{"https://construct.example/" + fmt.Sprint(len(calls))}}}, nil, "")
			raw := cr.bytes()
			which := rapid.IntRange(0, 2).Draw(t, "constructWhat")
			calls = append(calls, c20Call{kind, func() string {
				switch which {
				case 0:
					fresh := newStack(p)
					op, err := fresh.Parser.Parse("did:sidetree", raw)
					if err != nil {
						return "ERR:" + err.Error()
					}
					return rmDigest(fresh.Applier.Apply(anchoredBytes("create", raw, op.UniqueSuffix, anchorMeta{Time: 2, Canonical: "c"}), &protocol.ResolutionModel{}))
				case 1:
					h, err := dochandler.New("did:ion")
					if err != nil {
						return "ERR:" + err.Error()
					}
					return digest(h.ProcessOperation(raw))
				default:
					v, err := longform.New()
					if err != nil {
						return "ERR:" + err.Error()
					}
					return fmt.Sprint(v.Accept("ion"), v.Accept("other"))
				}
			}})
		case "compose-shared-patches":
			// one list of patches, as decoded from a request, applied to several documents by several calls: the patches are
			// read-only inputs (C12), so sharing them is as good as sharing a component
			shared, _ := genOpPatches(t, map[string]interface{}{}, true, statsFor("C20"))
			var lps []patch.Patch
			if err := json.Unmarshal([]byte(refJCS(shared)), &lps); err != nil {
				t.Fatalf("harness: %v", err)
			}
			for k := rapid.IntRange(3, 6).Draw(t, "sharers"); k > 0; k-- {
				ld := libDoc(map[string]interface{}{"alsoKnownAs": []interface{}{fmt.Sprintf("https://shared.example/%d/%d", len(calls), k)}})
				calls = append(calls, c20Call{kind, func() string {
					s.enter(&s.inCompose)
					defer s.leave(&s.inCompose)
					res, err := s.stack.Composer.ApplyPatches(ld, lps)
					if err != nil {
						return "ERR:" + err.Error()
					}
					return docCanon(res)
				}})
			}
		case "compose-copy-move":
			// several copy / move operations of sizeable values: every call has its own document with its own marker
			marker := fmt.Sprintf("doc-%d-", len(calls)) + genString(t, 6)
			var items []interface{}
			for i := rapid.IntRange(1, 12).Draw(t, "items"); i > 0; i-- {
				items = append(items, map[string]interface{}{"marker": marker, "n": fmt.Sprint(i), "pad": strings.Repeat(marker, rapid.IntRange(1, 30).Draw(t, "pad"))})
			}
			doc := map[string]interface{}{"src": map[string]interface{}{"items": items, "marker": marker}, "alsoKnownAs": []interface{}{"https://" + "cm.example/" + fmt.Sprint(len(calls))}}
			var ops []interface{}
			for i := rapid.IntRange(2, 6).Draw(t, "nops"); i > 0; i-- {
				to := fmt.Sprintf("/dst%d", i)
				if rapid.Bool().Draw(t, "move") && i > 1 {
					ops = append(ops, map[string]interface{}{"op": "copy", "from": "/src", "path": to}, map[string]interface{}{"op": "move", "from": to, "path": to + "moved"})
				} else {
					ops = append(ops, map[string]interface{}{"op": "copy", "from": rapid.SampledFrom([]string{"/src", "/src/items", "/src/items/0", "/src/marker"}).Draw(t, "from"), "path": to})
				}
			}
			lps, err := libPatches([]interface{}{map[string]interface{}{"action": "ietf-json-patch", "patches": ops}})
			if err != nil {
				t.Fatalf("harness: %v", err)
			}
			ld := libDoc(doc)
			calls = append(calls, c20Call{kind, func() string {
				s.enter(&s.inCompose)
				defer s.leave(&s.inCompose)
				res, err := s.stack.Composer.ApplyPatches(ld, lps)
				if err != nil {
					return "ERR:" + err.Error()
				}
				return docCanon(res)
			}})
		case "compose":
			doc := genDocument(t, false)
			patches, _ := genOpPatches(t, doc, true, statsFor("C20"))
			lps, err := libPatches(patches)
			if err != nil {
				t.Fatalf("harness: %v", err)
			}
			ld := libDoc(doc)
			calls = append(calls, c20Call{kind, func() string {
				s.enter(&s.inCompose)
				defer s.leave(&s.inCompose)
				res, err := s.stack.Composer.ApplyPatches(ld, lps)
				if err != nil {
					return "ERR:" + err.Error()
				}
				return docCanon(res)
			}})
		case "transform":
			ed := map[string][]byte{}
			doc := map[string]interface{}{}
			var keys []interface{}
			for _, id := range genUniqueIDs(t, 1, 3, "keyID") {
				keys = append(keys, genTransformKey(t, id, ed))
			}
			doc["publicKey"] = keys
			doc["service"] = genServiceList(t, 1, 2)
			pub, _ := genAnchoredOps(t, true, "pub")
			id := fmt.Sprintf("did:sidetree:EiTransform%d", i)
			calls = append(calls, c20Call{kind, func() string {
				s.enter(&s.inTransform)
				defer s.leave(&s.inTransform)
				rm := &protocol.ResolutionModel{Doc: libDoc(doc), RecoveryCommitment: "r", UpdateCommitment: "u", AnchorOrigin: origin, VersionID: "v", CreatedTime: 5,
					PublishedOperations: append([]*operation.AnchoredOperation{}, pub...)}
				return digest(s.tr.TransformDocument(rm, protocol.TransformationInfo{"id": id, "published": true}))
			}})
		case "resolve", "process", "vdr-read":
			rec, upd := genKey(t, "rec"), genKey(t, "upd")
			if rec.Commitment(18) == upd.Commitment(18) {
				upd = otherKey(t, rec)
			}
			svcType := rapid.SampledFrom([]string{"LinkedDomains", "t\u0001\u0002", "\u0015\u0016\u0017x"}).Draw(t, "svcType")
			patches := []interface{}{
				map[string]interface{}{"action": "add-public-keys", "publicKeys": []interface{}{genDocKey(t, "k"+itoa(i), true)}},
				map[string]interface{}{"action": "add-services", "services": []interface{}{map[string]interface{}{"id": "s" + itoa(i), "type": svcType, "serviceEndpoint": "https://example.com/" + itoa(i)}}},
			}
			cr := newCreate(18, rec, upd, patches, origin, "")
			raw := cr.bytes()
			did := "did:ion:" + cr.suffixFor(18) + ":" + b64(raw)
			switch kind {
			case "resolve":
				calls = append(calls, c20Call{kind, func() string {
					s.enter(&s.inResolve)
					defer s.leave(&s.inResolve)
					return digest(s.handler.ResolveDocument(did))
				}})
				// the other long-form spelling of the same DID (initial state without the optional type member), several times:
				// resolutions of one suffix under different ids are in flight together
				noType := "did:ion:" + cr.suffixFor(18) + ":" + b64([]byte(refJCS(map[string]interface{}{"delta": cr.Delta, "suffixData": cr.SuffixData})))
				for _, d := range []string{noType, did, noType} {
					d := d
					calls = append(calls, c20Call{kind, func() string {
						s.enter(&s.inResolve)
						defer s.leave(&s.inResolve)
						return digest(s.handler.ResolveDocument(d))
					}})
				}
			case "process":
				calls = append(calls, c20Call{kind, func() string {
					s.enter(&s.inResolve)
					defer s.leave(&s.inResolve)
					return digest(s.handler.ProcessOperation(raw))
				}})
			default:
				calls = append(calls, c20Call{kind, func() string {
					s.enter(&s.inVDR)
					defer s.leave(&s.inVDR)
					r, err := s.vdr.Read(did)
					if err != nil {
						return "ERR:" + err.Error()
					}
					b, _ := json.Marshal(r.DIDDocument)
					return string(b)
				}})
			}
		case "vdr-create":
			d := genC17Doc(t)
			upd, rec := genKey(t, "upd"), genKey(t, "rec")
			if rec.Commitment(18) == upd.Commitment(18) {
				upd = otherKey(t, rec)
			}
			if rapid.Bool().Draw(t, "shortCoordinateKeys") {
				// operation keys whose coordinates start with zero bytes (the padded encodings are where buffers get shared)
				zs := pool()[ktSecp256k1]
				if rapid.Bool().Draw(t, "shortP256") {
					zs = pool()[ktP256]
				}
				upd, rec = zs[len(zs)-1], zs[len(zs)-2]
				if rapid.Bool().Draw(t, "swapShort") {
					upd, rec = rec, upd
				}
			}
			if defaults := rapid.IntRange(0, 5).Draw(t, "defaultKeys") - 2; defaults > 0 {
				// one or both operation keys left to the VDR (it generates them): the DID differs from call to call, what is
				// compared is that the DID it returns resolves to the document handed in
				var copts []vdrapi.DIDMethodOption
				if defaults == 1 {
					copts = append(copts, vdrapi.WithOption(longform.UpdatePublicKeyOpt, upd.Public()))
				} else if defaults == 2 {
					copts = append(copts, vdrapi.WithOption(longform.RecoveryPublicKeyOpt, rec.Public()))
				}
				calls = append(calls, c20Call{kind, func() string {
					s.enter(&s.inVDR)
					defer s.leave(&s.inVDR)
					r, err := s.vdr.Create(cloneDoc(d.doc), copts...)
					if err != nil {
						return "ERR:" + err.Error()
					}
					back, err := s.vdr.Read(r.DIDDocument.ID)
					if err != nil {
						return "ERR:" + err.Error()
					}
					return fmt.Sprintf("created with default keys: %d verification methods, %d services, resolves: %v", len(back.DIDDocument.VerificationMethod), len(back.DIDDocument.Service), back.DIDDocument.ID == r.DIDDocument.ID)
				}})
				break
			}
			calls = append(calls, c20Call{kind, func() string {
				s.enter(&s.inVDR)
				defer s.leave(&s.inVDR)
				r, err := s.vdr.Create(cloneDoc(d.doc), vdrapi.WithOption(longform.UpdatePublicKeyOpt, upd.Public()), vdrapi.WithOption(longform.RecoveryPublicKeyOpt, rec.Public()))
				if err != nil {
					return "ERR:" + err.Error()
				}
				return r.DIDDocument.ID
			}})
		default: // canonicalize + hash: package-level functions shared by everything
			vi := &valueInfo{}
			v := genTopLevel(t, 3, 4, vi)
			text := []byte(spell(t, v, 1))
			calls = append(calls, c20Call{kind, func() string {
				out, err := canonicalizer.MarshalCanonical(text)
				if err != nil {
					return "ERR:" + err.Error()
				}
				h, _ := hashing.CalculateModelMultihash(text, 18)
				return string(out) + "|" + h
			}})
		}
	}
	return calls
}

func cloneDoc(d *docdid.Doc) *docdid.Doc {
	c := *d
	c.Authentication = append([]docdid.Verification{}, d.Authentication...)
	c.AssertionMethod = append([]docdid.Verification{}, d.AssertionMethod...)
	c.CapabilityDelegation = append([]docdid.Verification{}, d.CapabilityDelegation...)
	c.CapabilityInvocation = append([]docdid.Verification{}, d.CapabilityInvocation...)
	c.KeyAgreement = append([]docdid.Verification{}, d.KeyAgreement...)
	c.Service = append([]docdid.Service{}, d.Service...)
	c.AlsoKnownAs = append([]string{}, d.AlsoKnownAs...)
	return &c
}

func TestC20_SharedComponents(t *testing.T) {
	st := statsFor("C20")
	handler, err := dochandler.New("did:ion")
	if err != nil {
		t.Fatal(err)
	}
	vdr, err := longform.New()
	if err != nil {
		t.Fatal(err)
	}
	defer runtime.GOMAXPROCS(runtime.GOMAXPROCS(0))
	check(t, "C20", 30, func(t *rapid.T) {
		s := &c20Shared{stack: newStack(wideProtocol()), handler: handler, vdr: vdr,
			tr: didtransformer.New(didtransformer.WithBase(rapid.Bool().Draw(t, "base")), didtransformer.WithIncludePublishedOperations(true),
				didtransformer.WithMethodContext(rapid.SampledFrom([][]string{nil, {"https://m1.example"}, {"https://m1.example", "https://m2.example"},
					{"https://m1.example", "https://m2.example", "https://m3.example", "https://m4.example"}}).Draw(t, "methodCtx")))}
		ncalls := rapid.IntRange(50, 200).Draw(t, "ncalls")
		calls := genC20Calls(t, s, ncalls)
		procs := rapid.SampledFrom([]int{1, 2, 4, 16}).Draw(t, "gomaxprocs")
		workers := rapid.SampledFrom([]int{2, 4, 8, 16}).Draw(t, "goroutines")
		// sequential reference results - computed before the concurrent phase, or (so that nothing is warmed up by them) after it
		want := make([]string, len(calls))
		referenceFirst := rapid.Bool().Draw(t, "referenceFirst")
		if referenceFirst {
			for i, c := range calls {
				want[i] = c.run()
			}
		}
		atomic.StoreInt32(&s.maxOverlap, 0)
		runtime.GOMAXPROCS(procs)
		rounds := 2
		var results [][]string
		for r := 0; r < rounds; r++ {
			got := make([]string, len(calls))
			results = append(results, got)
			order := rapid.Permutation(indices(len(calls))).Draw(t, "order")
			var wg sync.WaitGroup
			start := make(chan struct{})
			for w := 0; w < workers; w++ {
				wg.Add(1)
				go func(w int) {
					defer wg.Done()
					<-start
					for k := w; k < len(order); k += workers {
						i := order[k]
						got[i] = calls[i].run() // every call is executed exactly once per round: inputs stay distinct
					}
				}(w)
			}
			close(start)
			awaitWorkers(t, &wg, "C20 shared components")
		}
		if !referenceFirst {
			for i, c := range calls {
				want[i] = c.run()
			}
		}
		for _, got := range results {
			for i := range calls {
				if got[i] != want[i] {
					t.Fatalf("C20 concurrent %s call returned another result than sequentially (GOMAXPROCS=%d, %d goroutines, %d calls)\n concurrent %s\n sequential %s",
						calls[i].kind, procs, workers, len(calls), clip(got[i], 1500), clip(want[i], 1500))
				}
			}
		}
		kinds := map[string]int{}
		for _, c := range calls {
			kinds[c.kind]++
		}
		labels := []string{fmt.Sprintf("gomaxprocs-%d", procs), fmt.Sprintf("goroutines-%d", workers)}
		for k := range kinds {
			labels = append(labels, "call-"+k)
		}
		overlap := atomic.LoadInt32(&s.maxOverlap)
		if overlap >= 2 {
			labels = append(labels, "overlap-observed")
		}
		st.Case(overlap >= 2, fmt.Sprint(want), labels...)
		st.Sample("workload", 2, func() interface{} {
			return map[string]interface{}{"calls": kinds, "gomaxprocs": procs, "goroutines": workers, "maxOverlapInOneComponent": overlap}
		})
	})
}

func indices(n int) []int {
	out := make([]int, n)
	for i := range out {
		out[i] = i
	}
	return out
}

// ---- registries: linearizability against a map model ----

type regIn struct {
	op  string // "set" (Add / Register) or "get"
	key string
	val int
}

type regOut struct {
	ok  bool // set: accepted (Register did not panic); get: found
	val int
}

// regModel: per key, state = current value (0 = absent). unique=true: set succeeds only when absent (Register).
func regModel(unique bool) porcupine.Model {
	return porcupine.Model{
		Partition: func(history []porcupine.Operation) [][]porcupine.Operation {
			m := map[string][]porcupine.Operation{}
			var keys []string
			for _, o := range history {
				k := o.Input.(regIn).key
				if _, ok := m[k]; !ok {
					keys = append(keys, k)
				}
				m[k] = append(m[k], o)
			}
			sort.Strings(keys)
			var out [][]porcupine.Operation
			for _, k := range keys {
				out = append(out, m[k])
			}
			return out
		},
		Init: func() interface{} { return 0 },
		Step: func(state, input, output interface{}) (bool, interface{}) {
			in, out, cur := input.(regIn), output.(regOut), state.(int)
			if in.op == "get" {
				if cur == 0 {
					return !out.ok, cur
				}
				return out.ok && out.val == cur, cur
			}
			if unique {
				if cur == 0 {
					return out.ok, in.val
				}
				return !out.ok, cur
			}
			return true, in.val
		},
		Equal: func(a, b interface{}) bool { return a.(int) == b.(int) },
		DescribeOperation: func(input, output interface{}) string {
			return fmt.Sprintf("%+v -> %+v", input, output)
		},
	}
}

type idFactory struct{ id int }

func (f *idFactory) Create(version string, _ *vcommon.ProtocolConfig) (protocol.Version, error) {
	return &vcommon.ProtocolVersion{VersionStr: fmt.Sprintf("%s#%d", version, f.id)}, nil
}

type idVersionProvider struct {
	*verprovider.ClientVersionProvider
	id int
}

func TestC20_Registries(t *testing.T) {
	st := statsFor("C20")
	defer runtime.GOMAXPROCS(runtime.GOMAXPROCS(0))
	base, err := verprovider.New([]protocol.Version{&vcommon.ProtocolVersion{VersionStr: "1.0"}})
	if err != nil {
		t.Fatal(err)
	}
	check(t, "C20", 150, func(t *rapid.T) {
		procs := rapid.SampledFrom([]int{1, 2, 4, 16}).Draw(t, "gomaxprocs")
		workers := rapid.SampledFrom([]int{2, 4, 8, 16}).Draw(t, "goroutines")
		perWorker := rapid.IntRange(3, 12).Draw(t, "opsPerWorker")
		nkeys := rapid.IntRange(1, 3).Draw(t, "keys")
		which := rapid.SampledFrom([]string{"client-registry", "namespace-provider"}).Draw(t, "registry")
		type plan struct {
			op  string
			key string
		}
		plans := make([][]plan, workers)
		for w := range plans {
			for i := 0; i < perWorker; i++ {
				op := rapid.SampledFrom([]string{"set", "get", "get"}).Draw(t, "op")
				plans[w] = append(plans[w], plan{op, fmt.Sprintf("7.%d", rapid.IntRange(1, nkeys).Draw(t, "key"))})
			}
		}
		runtime.GOMAXPROCS(procs)
		reg := clientregistry.New()
		ns := nsprovider.New()
		var clock int64
		var mu sync.Mutex
		var history []porcupine.Operation
		var wg sync.WaitGroup
		start := make(chan struct{})
		for w := 0; w < workers; w++ {
			wg.Add(1)
			go func(w int) {
				defer wg.Done()
				<-start
				for i, pl := range plans[w] {
					val := w*1000 + i + 1
					in := regIn{pl.op, pl.key, val}
					var out regOut
					call := atomic.AddInt64(&clock, 1)
					switch {
					case which == "client-registry" && pl.op == "set":
						func() {
							defer func() {
								if r := recover(); r != nil {
									out.ok = false
								}
							}()
							reg.Register(pl.key, &idFactory{id: val})
							out.ok = true
						}()
					case which == "client-registry":
						v, err := reg.CreateClientVersion(pl.key, &vcommon.ProtocolConfig{})
						if err == nil {
							out.ok = true
							fmt.Sscanf(v.Version()[strings.IndexByte(v.Version(), '#')+1:], "%d", &out.val)
						}
					case pl.op == "set":
						ns.Add(pl.key, &idVersionProvider{base, val})
						out.ok = true
					default:
						c, err := ns.ForNamespace(pl.key)
						if err == nil {
							out.ok = true
							out.val = c.(*idVersionProvider).id
						}
					}
					ret := atomic.AddInt64(&clock, 1)
					mu.Lock()
					history = append(history, porcupine.Operation{ClientId: w, Input: in, Call: call, Output: out, Return: ret})
					mu.Unlock()
				}
			}(w)
		}
		close(start)
		awaitWorkers(t, &wg, "C20 "+which)
		if !porcupine.CheckOperations(regModel(which == "client-registry"), history) {
			sort.Slice(history, func(i, j int) bool { return history[i].Call < history[j].Call })
			var sb strings.Builder
			for _, h := range history {
				fmt.Fprintf(&sb, "  client %d [%d,%d] %+v -> %+v\n", h.ClientId, h.Call, h.Return, h.Input, h.Output)
			}
			t.Fatalf("C20 %s history is not linearizable (GOMAXPROCS=%d, %d goroutines)\n%s", which, procs, workers, sb.String())
		}
		sets := 0
		for _, h := range history {
			if h.Input.(regIn).op == "set" {
				sets++
			}
		}
		st.Case(sets >= 2 && workers >= 2, fmt.Sprint(plans, procs, which), "registry-"+which, fmt.Sprintf("gomaxprocs-%d", procs), fmt.Sprintf("goroutines-%d", workers))
		st.Sample("registry-"+which, 1, func() interface{} {
			return map[string]interface{}{"registry": which, "goroutines": workers, "gomaxprocs": procs, "operations": len(history), "sets": sets}
		})
	})
}

// awaitWorkers waits for the workers of one concurrent workload. Workloads take milliseconds; if one is still running
// after a long grace period the goroutine dump is inspected twice, ten seconds apart: goroutines that sit in a lock
// operation below a library frame both times are deadlocked (a violation, reported with the dump). Anything else keeps
// waiting and is left to the run's time-out (inconclusive).
func awaitWorkers(t *rapid.T, wg *sync.WaitGroup, what string) {
	done := make(chan struct{})
	go func() { wg.Wait(); close(done) }()
	select {
	case <-done:
		return
	case <-time.After(90 * time.Second):
	}
	first := blockedInLibrary()
	select {
	case <-done:
		return
	case <-time.After(10 * time.Second):
	}
	second := blockedInLibrary()
	var stuck []string
	for id, block := range second {
		if _, ok := first[id]; ok {
			stuck = append(stuck, block)
		}
	}
	if len(stuck) > 0 {
		sort.Strings(stuck)
		t.Fatalf("%s: %d goroutine(s) blocked on a lock inside the library for more than 100 s while the workload cannot finish (deadlock)\n%s",
			what, len(stuck), clip(strings.Join(stuck, "\n\n"), 6000))
	}
	<-done
}

// blockedInLibrary returns the goroutines (id -> stack) that wait in a sync primitive with a library frame on their stack.
func blockedInLibrary() map[string]string {
	buf := make([]byte, 4<<20)
	buf = buf[:runtime.Stack(buf, true)]
	out := map[string]string{}
	for _, block := range strings.Split(string(buf), "\n\n") {
		head, _, _ := strings.Cut(block, "\n")
		if !strings.HasPrefix(head, "goroutine ") {
			continue
		}
		waiting := strings.Contains(head, "[sync.") || strings.Contains(head, "[semacquire")
		if waiting && strings.Contains(block, "github.com/trustbloc/sidetree-go/pkg/") {
			out[strings.Fields(head)[1]] = block
		}
	}
	return out
}

// TestC20_VersionProviders: several namespaces are registered at the same time from one list of protocol versions (in any
// order of genesis times). Every provider then serves the latest version as current and finds every version by its
// genesis time - as it would if the registrations had been made one after the other - and the caller's list is not
// touched.
func TestC20_VersionProviders(t *testing.T) {
	st := statsFor("C20")
	defer runtime.GOMAXPROCS(runtime.GOMAXPROCS(0))
	check(t, "C20", 60, func(t *rapid.T) {
		procs := rapid.SampledFrom([]int{2, 4, 16}).Draw(t, "gomaxprocs")
		workers := rapid.SampledFrom([]int{2, 4, 8, 16}).Draw(t, "goroutines")
		nv := rapid.IntRange(2, 6).Draw(t, "versions")
		times := rapid.Permutation([]uint64{0, 10, 20, 30, 40, 50}[:nv]).Draw(t, "genesisOrder")
		var shared []protocol.Version
		for i, g := range times {
			shared = append(shared, &vcommon.ProtocolVersion{VersionStr: fmt.Sprintf("v%d", i), P: protocol.Protocol{GenesisTime: g}})
		}
		before := append([]protocol.Version{}, shared...)
		latest := shared[0]
		for _, v := range shared {
			if v.Protocol().GenesisTime > latest.Protocol().GenesisTime {
				latest = v
			}
		}
		runtime.GOMAXPROCS(procs)
		ns := nsprovider.New()
		errs := make(chan string, workers)
		var wg sync.WaitGroup
		start := make(chan struct{})
		for w := 0; w < workers; w++ {
			wg.Add(1)
			go func(w int) {
				defer wg.Done()
				<-start
				p, err := verprovider.New(shared)
				if err != nil {
					errs <- err.Error()
					return
				}
				name := fmt.Sprintf("did:ns%d", w)
				ns.Add(name, p)
				got, err := ns.ForNamespace(name)
				if err != nil {
					errs <- fmt.Sprintf("namespace %s registered and not found: %v", name, err)
					return
				}
				cur, err := got.Current()
				if err != nil || cur != latest {
					errs <- fmt.Sprintf("provider of %s serves %v as current (%v), the latest version is %s", name, cur, err, latest.Version())
					return
				}
				for _, v := range before {
					if f, err := got.Get(v.Protocol().GenesisTime); err != nil || f != v {
						errs <- fmt.Sprintf("provider of %s does not find version %s by its genesis time %d: %v", name, v.Version(), v.Protocol().GenesisTime, err)
						return
					}
				}
			}(w)
		}
		close(start)
		awaitWorkers(t, &wg, "C20 concurrent registration of version providers")
		close(errs)
		for e := range errs {
			t.Fatalf("C20 (GOMAXPROCS=%d, %d goroutines registering from one version list %v) %s", procs, workers, times, e)
		}
		for i := range shared {
			if shared[i] != before[i] {
				t.Fatalf("C20 the caller's list of versions was reordered by the registrations (genesis times %v)", times)
			}
		}
		sorted := true
		for i := 1; i < len(times); i++ {
			if times[i] < times[i-1] {
				sorted = false
			}
		}
		st.Case(!sorted, fmt.Sprint("verprovider|", times, workers, procs), "registry-version-provider", fmt.Sprintf("goroutines-%d", workers))
	})
}

// TestC20_SharedInputs: read-only inputs are shared too. One list of patches, freshly decoded from JSON, is applied to
// different documents (and validated) by several goroutines that all start at the same moment, so that their first use of
// the patches coincides; the results are the sequential ones and (under the race detector) nothing is written.
func TestC20_SharedInputs(t *testing.T) {
	st := statsFor("C20")
	defer runtime.GOMAXPROCS(runtime.GOMAXPROCS(0))
	check(t, "C20", 25, func(t *rapid.T) {
		procs := rapid.SampledFrom([]int{2, 4, 16}).Draw(t, "gomaxprocs")
		workers := rapid.SampledFrom([]int{2, 4, 8}).Draw(t, "goroutines")
		stack := newStack(wideProtocol())
		runtime.GOMAXPROCS(procs)
		lists := rapid.IntRange(3, 12).Draw(t, "lists")
		for l := 0; l < lists; l++ {
			values, _ := genOpPatches(t, map[string]interface{}{}, true, st)
			decode := func() []patch.Patch {
				// decoded the way the parser decodes the patches of a delta: plain JSON decoding into the patch type
				var lps []patch.Patch
				if err := json.Unmarshal([]byte(refJCS(values)), &lps); err != nil {
					t.Fatalf("harness: %v", err)
				}
				return lps
			}
			docs := make([]map[string]interface{}, workers)
			want := make([]string, workers)
			for w := range docs {
				docs[w] = map[string]interface{}{"alsoKnownAs": []interface{}{fmt.Sprintf("https://inputs.example/%d/%d", l, w)}}
				res, err := stack.Composer.ApplyPatches(libDoc(docs[w]), decode()) // reference: a private copy of the patches
				if err != nil {
					want[w] = "ERR"
				} else {
					want[w] = docCanon(res)
				}
			}
			shared := decode() // never used before the goroutines start
			got := make([]string, workers)
			var wg sync.WaitGroup
			start := make(chan struct{})
			for w := 0; w < workers; w++ {
				wg.Add(1)
				go func(w int) {
					defer wg.Done()
					<-start
					for _, lp := range shared {
						_ = patchvalidator.Validate(lp)
					}
					res, err := stack.Composer.ApplyPatches(libDoc(docs[w]), shared)
					if err != nil {
						got[w] = "ERR"
					} else {
						got[w] = docCanon(res)
					}
				}(w)
			}
			close(start)
			awaitWorkers(t, &wg, "C20 shared patch list")
			for w := range got {
				if got[w] != want[w] {
					t.Fatalf("C20 a patch list shared by %d goroutines gives another result than a private copy\n patches %s\n shared  %s\n private %s", workers, refJCS(values), got[w], want[w])
				}
			}
		}
		st.Case(workers >= 4, fmt.Sprint("shared-inputs|", lists, workers, procs), "shared-inputs", fmt.Sprintf("goroutines-%d", workers))
	})
}
