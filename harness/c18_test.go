package harness

// C18 — resolution results expose every key, service and metadata item correctly.
// Oracle: refTransform, a declarative construction of the expected resolution result (each key once, relationships =
// purposes, id rules, contexts, metadata, operations in (time, number) order, de-duplicated by canonical reference).

import (
	"encoding/base64"
	"fmt"
	"sort"
	"testing"
	"time"

	"github.com/trustbloc/sidetree-go/pkg/api/operation"
	"github.com/trustbloc/sidetree-go/pkg/api/protocol"
	"github.com/trustbloc/sidetree-go/pkg/versions/1_0/doctransformer/didtransformer"
	"github.com/trustbloc/sidetree-go/pkg/versions/1_0/doctransformer/doctransformer"
	"pgregory.net/rapid"
)

var defaultKeyContexts = map[string]string{
	tBls:      "https://w3id.org/security/suites/bls12381-2020/v1",
	tJWK2020:  "https://w3id.org/security/suites/jws-2020/v1",
	tSecp2019: "https://w3id.org/security/suites/secp256k1-2019/v1",
	tEd2018:   "https://w3id.org/security/suites/ed25519-2018/v1",
	tEd2020:   "https://w3id.org/security/suites/ed25519-2020/v1",
	tX25519:   "https://w3id.org/security/suites/x25519-2019/v1",
}

var purposeToRelationship = map[string]string{pAuth: "authentication", pAssert: "assertionMethod", pAgree: "keyAgreement",
	pDelegate: "capabilityDelegation", pInvoke: "capabilityInvocation"}

type transformOpts struct {
	base        bool
	methodCtx   []string
	keyCtx      map[string]string
	incPub      bool
	incUnpub    bool
	published   bool
	id          string
	canonicalID string
	equivalent  []string
}

type stateForTransform struct {
	doc          map[string]interface{}
	recovery     string
	update       string
	origin       interface{}
	deactivated  bool
	created      uint64
	updated      uint64
	versionID    string
	pubOps       []*operation.AnchoredOperation
	unpubOps     []*operation.AnchoredOperation
	edKeyOfEntry map[string][]byte // key id -> raw Ed25519 public key (for 2018/2020 conversion)
}

func objectID(o transformOpts, id string) string {
	if o.base {
		return "#" + id
	}
	return o.id + "#" + id
}

func opKeyLess(a, b *operation.AnchoredOperation) bool {
	if a.TransactionTime != b.TransactionTime {
		return a.TransactionTime < b.TransactionTime
	}
	return a.TransactionNumber < b.TransactionNumber
}

func opValue(op *operation.AnchoredOperation, published bool) map[string]interface{} {
	m := map[string]interface{}{"type": string(op.Type), "operation": base64.StdEncoding.EncodeToString(op.OperationRequest),
		"transactionTime": float64(op.TransactionTime), "protocolVersion": float64(op.ProtocolVersion)}
	if op.AnchorOrigin != nil {
		m["anchorOrigin"] = op.AnchorOrigin
	}
	if published {
		m["transactionNumber"] = float64(op.TransactionNumber)
		if op.CanonicalReference != "" {
			m["canonicalReference"] = op.CanonicalReference
		}
		if len(op.EquivalentReferences) > 0 {
			m["equivalentReferences"] = toIfaceList(op.EquivalentReferences)
		}
	}
	return m
}

// refTransform builds the expected resolution result as a JSON value tree.
func refTransform(s stateForTransform, o transformOpts) map[string]interface{} {
	ctx := []interface{}{"https://www.w3.org/ns/did/v1"}
	for _, c := range o.methodCtx {
		ctx = append(ctx, c)
	}
	if o.base {
		ctx = append(ctx, map[string]interface{}{"@base": o.id})
	}
	doc := map[string]interface{}{"id": o.id}
	if aka := stringEntries(s.doc["alsoKnownAs"]); len(aka) > 0 {
		doc["alsoKnownAs"] = toIfaceList(aka)
	}
	keyCtx := o.keyCtx
	if len(keyCtx) == 0 {
		keyCtx = defaultKeyContexts
	}
	var vms []interface{}
	rel := map[string][]interface{}{}
	seenCtx := map[string]bool{}
	for _, k := range mapEntries(s.doc["publicKey"]) {
		km := k.(map[string]interface{})
		kid, _ := km["id"].(string)
		typ, _ := km["type"].(string)
		vm := map[string]interface{}{"id": objectID(o, kid), "type": typ, "controller": o.id}
		if jwk, ok := km["publicKeyJwk"].(map[string]interface{}); ok {
			switch typ {
			case tEd2018:
				vm["publicKeyBase58"] = b58encode(s.edKeyOfEntry[kid])
			case tEd2020:
				vm["publicKeyMultibase"] = "z" + b58encode(s.edKeyOfEntry[kid])
			default:
				vm["publicKeyJwk"] = jwk
			}
		} else if b58, ok := km["publicKeyBase58"].(string); ok {
			vm["publicKeyBase58"] = b58
		}
		vms = append(vms, vm)
		if c := keyCtx[typ]; !seenCtx[c] {
			seenCtx[c] = true
			ctx = append(ctx, c)
		}
		for _, p := range stringEntries(km["purposes"]) {
			r := purposeToRelationship[p]
			rel[r] = append(rel[r], objectID(o, kid))
		}
	}
	if len(vms) > 0 {
		doc["verificationMethod"] = vms
	}
	for r, ids := range rel {
		doc[r] = ids
	}
	doc["@context"] = ctx
	var svcs []interface{}
	for _, sv := range mapEntries(s.doc["service"]) {
		sm := sv.(map[string]interface{})
		out := map[string]interface{}{}
		for k, v := range sm {
			out[k] = v
		}
		sid, _ := sm["id"].(string)
		out["id"] = objectID(o, sid)
		svcs = append(svcs, out)
	}
	if len(svcs) > 0 {
		doc["service"] = svcs
	}

	method := map[string]interface{}{"published": o.published}
	if s.recovery != "" {
		method["recoveryCommitment"] = s.recovery
	}
	if s.update != "" {
		method["updateCommitment"] = s.update
	}
	if s.origin != nil {
		method["anchorOrigin"] = s.origin
	}
	if o.incUnpub && len(s.unpubOps) > 0 {
		ops := append([]*operation.AnchoredOperation{}, s.unpubOps...)
		sort.SliceStable(ops, func(i, j int) bool { return opKeyLess(ops[i], ops[j]) })
		var l []interface{}
		for _, op := range ops {
			l = append(l, opValue(op, false))
		}
		method["unpublishedOperations"] = l
	}
	if o.incPub && len(s.pubOps) > 0 {
		ops := append([]*operation.AnchoredOperation{}, s.pubOps...)
		sort.SliceStable(ops, func(i, j int) bool { return opKeyLess(ops[i], ops[j]) })
		seen := map[string]bool{}
		var l []interface{}
		for _, op := range ops {
			if seen[op.CanonicalReference] {
				continue
			}
			seen[op.CanonicalReference] = true
			l = append(l, opValue(op, true))
		}
		method["publishedOperations"] = l
	}
	md := map[string]interface{}{"method": method}
	if s.deactivated {
		md["deactivated"] = true
	}
	if o.canonicalID != "" {
		md["canonicalId"] = o.canonicalID
	}
	if o.equivalent != nil {
		md["equivalentId"] = toIfaceList(o.equivalent)
	}
	if o.published {
		md["created"] = time.Unix(int64(s.created), 0).UTC().Format(time.RFC3339)
	}
	if s.versionID != "" {
		md["versionId"] = s.versionID
		if s.updated > 0 {
			md["updated"] = time.Unix(int64(s.updated), 0).UTC().Format(time.RFC3339)
		}
	}
	return map[string]interface{}{"@context": "https://w3id.org/did-resolution/v1", "didDocument": doc, "didDocumentMetadata": md}
}

// genTransformKey draws a validated key entry whose material is consistent with its type, remembering Ed25519 bytes.
func genTransformKey(t *rapid.T, id string, ed map[string][]byte) map[string]interface{} {
	k := genDocKey(t, id, true)
	if jwk, ok := k["publicKeyJwk"].(map[string]interface{}); ok && (k["type"] == tEd2018 || k["type"] == tEd2020) {
		x, _ := jwk["x"].(string)
		raw, _ := base64.RawURLEncoding.DecodeString(x)
		ed[id] = raw
	}
	return k
}

func genAnchoredOps(t *rapid.T, published bool, label string) ([]*operation.AnchoredOperation, bool) {
	n := rapid.IntRange(0, 6).Draw(t, label+"-n")
	var ops []*operation.AnchoredOperation
	used := map[[2]uint64]bool{}
	disagree := false
	for i := 0; i < n; i++ {
		var tm, num uint64
		for try := 0; ; try++ {
			tm = uint64(rapid.IntRange(0, 4).Draw(t, label+"-time"))
			num = uint64(rapid.IntRange(0, 4).Draw(t, label+"-num"))
			switch rapid.IntRange(0, 13).Draw(t, label+"-huge") {
			case 0:
				tm = rapid.Uint64Range(1<<33, 1<<50).Draw(t, label+"-hugeTime")
			case 1:
				// the whole range of the type: differences no longer fit a signed integer
				tm = rapid.SampledFrom([]uint64{1 << 63, 1<<63 + 1000, 1<<64 - 1, 1<<64 - 2, 1 << 62}).Draw(t, label+"-hugestTime")
			case 2:
				num = rapid.SampledFrom([]uint64{1 << 63, 1<<63 + 1000, 1<<64 - 1, 1 << 32, 1<<31 + 1}).Draw(t, label+"-hugeNum")
			}
			if !used[[2]uint64{tm, num}] || try > 20 {
				break
			}
		}
		if used[[2]uint64{tm, num}] {
			continue
		}
		used[[2]uint64{tm, num}] = true
		op := &operation.AnchoredOperation{Type: operation.Type(rapid.SampledFrom([]string{"create", "update", "recover", "deactivate"}).Draw(t, label+"-type")),
			UniqueSuffix: "suffix", OperationRequest: []byte(fmt.Sprintf(`{"n":%d}`, i)), TransactionTime: tm, TransactionNumber: num,
			ProtocolVersion: uint64(rapid.IntRange(0, 2).Draw(t, label+"-ver"))}
		if published {
			op.CanonicalReference = fmt.Sprintf("uEiRef%d", i)
			if rapid.IntRange(0, 5).Draw(t, label+"-noRef") == 0 {
				op.CanonicalReference = "" // the empty reference is a reference like any other: one entry for all of them
			}
			if rapid.Bool().Draw(t, label+"-eq") {
				op.EquivalentReferences = []string{"eq" + itoa(i), "hl:x"}
			}
		}
		if rapid.IntRange(0, 2).Draw(t, label+"-origin") == 0 {
			op.AnchorOrigin = genOrigin(t)
		}
		ops = append(ops, op)
		// a repeated canonical reference: the same operation seen again (e.g. through another anchor)
		if published && rapid.IntRange(0, 3).Draw(t, label+"-dup") == 0 {
			cp := *op
			// seen again, possibly in another anchor: identical but for its (time, number); the earliest one represents the group
			if rapid.Bool().Draw(t, label+"-dupElsewhere") {
				for try := 0; try < 20; try++ {
					t2, n2 := uint64(rapid.IntRange(0, 4).Draw(t, label+"-dupTime")), uint64(rapid.IntRange(0, 4).Draw(t, label+"-dupNum"))
					if !used[[2]uint64{t2, n2}] {
						used[[2]uint64{t2, n2}] = true
						cp.TransactionTime, cp.TransactionNumber = t2, n2
						break
					}
				}
			}
			ops = append(ops, &cp)
		}
	}
	for i := range ops {
		for j := range ops {
			if ops[i].TransactionTime < ops[j].TransactionTime && ops[i].TransactionNumber > ops[j].TransactionNumber {
				disagree = true
			}
		}
	}
	if len(ops) > 1 {
		perm := rapid.Permutation(ops).Draw(t, label+"-order")
		ops = perm
	}
	return ops, disagree
}

func TestC18_Transform(t *testing.T) {
	st := statsFor("C18")
	check(t, "C18", 2500, func(t *rapid.T) {
		ed := map[string][]byte{}
		doc := map[string]interface{}{}
		var keys []interface{}
		for _, id := range genUniqueIDs(t, 0, 5, "keyID") {
			keys = append(keys, genTransformKey(t, id, ed))
		}
		if len(keys) > 0 {
			doc["publicKey"] = keys
		}
		if ss := genServiceList(t, 0, 3); len(ss) > 0 {
			doc["service"] = ss
		}
		if rapid.Bool().Draw(t, "aka") {
			doc["alsoKnownAs"] = genURIList(t, 1, 3)
		}
		o := transformOpts{base: rapid.Bool().Draw(t, "base"), incPub: rapid.Bool().Draw(t, "incPub"), incUnpub: rapid.Bool().Draw(t, "incUnpub"),
			published: rapid.Bool().Draw(t, "published"), id: rapid.SampledFrom([]string{"did:sidetree:EiAbc", "did:ion:EiAbc:eyJkZWx0YSI6e319", "did:x:y:z:123"}).Draw(t, "id")}
		if rapid.Bool().Draw(t, "methodCtx") {
			o.methodCtx = rapid.SampledFrom([][]string{{"https://method.example/v1"}, {"https://a.example", "https://b.example"}, {"https://a.example", "https://b.example", "https://c.example", "https://d.example"}}).Draw(t, "methodCtxVal")
		}
		if rapid.IntRange(0, 3).Draw(t, "customKeyCtx") == 0 {
			o.keyCtx = map[string]string{}
			for _, ty := range docKeyTypes {
				o.keyCtx[ty] = "https://custom.example/" + ty
			}
			if rapid.Bool().Draw(t, "sharedCtx") {
				o.keyCtx[tEd2018] = o.keyCtx[tEd2020]
			}
		}
		if rapid.Bool().Draw(t, "canonical") {
			o.canonicalID = "did:sidetree:uEiCanon:EiAbc"
		}
		switch rapid.IntRange(0, 2).Draw(t, "equivalent") {
		case 1:
			o.equivalent = []string{"did:sidetree:EiAbc"}
		case 2:
			o.equivalent = []string{"did:sidetree:uEiCanon:EiAbc", "did:sidetree:hl:x:EiAbc"}
		}
		pub, d1 := genAnchoredOps(t, true, "pub")
		unpub, d2 := genAnchoredOps(t, false, "unpub")
		s := stateForTransform{doc: doc, edKeyOfEntry: ed, pubOps: pub, unpubOps: unpub,
			recovery: rapid.SampledFrom([]string{"", "EiRecovery"}).Draw(t, "recoveryC"), update: rapid.SampledFrom([]string{"", "EiUpdate"}).Draw(t, "updateC"),
			origin: genOrigin(t), deactivated: rapid.IntRange(0, 4).Draw(t, "deactivated") == 0,
			created: uint64(rapid.IntRange(0, 2000000000).Draw(t, "created")), updated: uint64(rapid.SampledFrom([]int{0, 1, 1700000000}).Draw(t, "updated")),
			versionID: rapid.SampledFrom([]string{"", "uEiVersion"}).Draw(t, "versionID")}

		var opts []didtransformer.Option
		opts = append(opts, didtransformer.WithBase(o.base), didtransformer.WithIncludePublishedOperations(o.incPub), didtransformer.WithIncludeUnpublishedOperations(o.incUnpub))
		if o.methodCtx != nil {
			opts = append(opts, didtransformer.WithMethodContext(o.methodCtx))
		}
		if o.keyCtx != nil {
			opts = append(opts, didtransformer.WithKeyContext(o.keyCtx))
		} else if k := rapid.IntRange(0, 5).Draw(t, "emptyKeyCtx"); k < 2 {
			// a key context option without entries (an unset configuration value passed on) means the built-in contexts
			opts = append(opts, didtransformer.WithKeyContext([]map[string]string{nil, {}}[k]))
		}
		tr := didtransformer.New(opts...)
		rm := &protocol.ResolutionModel{Doc: libDoc(doc), RecoveryCommitment: s.recovery, UpdateCommitment: s.update, AnchorOrigin: s.origin,
			Deactivated: s.deactivated, CreatedTime: s.created, UpdatedTime: s.updated, VersionID: s.versionID,
			PublishedOperations: append([]*operation.AnchoredOperation{}, pub...), UnpublishedOperations: append([]*operation.AnchoredOperation{}, unpub...)}
		info := protocol.TransformationInfo{"id": o.id, "published": o.published}
		if o.canonicalID != "" {
			info["canonicalId"] = o.canonicalID
		}
		if o.equivalent != nil {
			info["equivalentId"] = o.equivalent
		}
		want := refTransform(s, o)
		got, err := tr.TransformDocument(rm, info)
		if err != nil {
			t.Fatalf("C18 TransformDocument failed on a document of validated keys: %v\n doc=%s", err, refJCS(doc))
		}
		rt, err := jsonRoundTrip(got)
		if err != nil {
			t.Fatalf("C18 result not serializable: %v", err)
		}
		if g, w := refJCS(rt), refJCS(want); g != w {
			gm, _ := rt.(map[string]interface{})
			for _, part := range []string{"didDocument", "didDocumentMetadata", "@context"} {
				if refJCS(gm[part]) != refJCS(want[part]) {
					t.Fatalf("C18 resolution result differs in %s\n got  %s\n want %s\n internal doc %s\n options %+v", part, refJCS(gm[part]), refJCS(want[part]), refJCS(doc), o)
				}
			}
			t.Fatalf("C18 resolution result differs")
		}

		// the same resolved state transformed again (cached state, other option set) gives the same result
		got1b, err := tr.TransformDocument(rm, info)
		if err != nil {
			t.Fatalf("C18 second TransformDocument of the same state failed: %v", err)
		}
		rt1b, _ := jsonRoundTrip(got1b)
		if refJCS(rt1b) != refJCS(want) {
			gm, _ := rt1b.(map[string]interface{})
			t.Fatalf("C18 transforming the same resolved state a second time gives another result\n got  %s\n want %s", refJCS(gm["didDocument"]), refJCS(want["didDocument"]))
		}
		o2 := o
		o2.base = !o.base
		tr2 := didtransformer.New(append(append([]didtransformer.Option{}, opts...), didtransformer.WithBase(o2.base))...)
		got1c, err := tr2.TransformDocument(rm, info)
		if err != nil {
			t.Fatalf("C18 TransformDocument (other base option) of the same state failed: %v", err)
		}
		rt1c, _ := jsonRoundTrip(got1c)
		if w2 := refTransform(s, o2); refJCS(rt1c) != refJCS(w2) {
			gm, _ := rt1c.(map[string]interface{})
			t.Fatalf("C18 transforming the same resolved state with the other @base option gives a wrong result\n got  %s\n want %s", refJCS(gm["didDocument"]), refJCS(w2["didDocument"]))
		}

		// the same transformer instance, the same key ids, other key material (a key replaced under its id, or another DID
		// using the same fragment): the result shows the material of the state that is transformed
		if len(keys) > 0 {
			edB := map[string][]byte{}
			docB := deepCopyValue(doc).(map[string]interface{})
			var keysB []interface{}
			for _, k := range keys {
				keysB = append(keysB, genTransformKey(t, k.(map[string]interface{})["id"].(string), edB))
			}
			docB["publicKey"] = keysB
			sB := s
			sB.doc, sB.edKeyOfEntry = docB, edB
			rmB := *rm
			rmB.Doc = libDoc(docB)
			oB := o
			infoB := protocol.TransformationInfo{"id": o.id, "published": o.published}
			if rapid.Bool().Draw(t, "otherDID") {
				oB.id = "did:sidetree:EiOtherDidSameFragments"
				infoB["id"] = oB.id
			}
			if o.canonicalID != "" {
				infoB["canonicalId"] = o.canonicalID
			}
			if o.equivalent != nil {
				infoB["equivalentId"] = o.equivalent
			}
			gotB, err := tr.TransformDocument(&rmB, infoB)
			if err != nil {
				t.Fatalf("C18 TransformDocument (same key ids, other material) failed: %v", err)
			}
			rtB, _ := jsonRoundTrip(gotB)
			if wB := refTransform(sB, oB); refJCS(rtB) != refJCS(wB) {
				gm, _ := rtB.(map[string]interface{})
				t.Fatalf("C18 the same transformer shows other key material under key ids it has seen before\n got  %s\n want %s", refJCS(gm["didDocument"]), refJCS(wB["didDocument"]))
			}
		}

		// an earlier result stays what it was when the same transformer instance transforms another state
		ed3 := map[string][]byte{}
		doc3 := map[string]interface{}{"publicKey": []interface{}{genTransformKey(t, "other1", ed3), genTransformKey(t, "other2", ed3)}}
		rm3 := &protocol.ResolutionModel{Doc: libDoc(doc3)}
		if _, err := tr.TransformDocument(rm3, protocol.TransformationInfo{"id": "did:sidetree:EiOther", "published": false}); err != nil {
			t.Fatalf("C18 TransformDocument of another state: %v", err)
		}
		if again, _ := jsonRoundTrip(got); refJCS(again) != refJCS(want) {
			gm, _ := again.(map[string]interface{})
			t.Fatalf("C18 an earlier resolution result changed when the transformer was used again\n now  %s\n was  %s", refJCS(gm["didDocument"]), refJCS(want["didDocument"]))
		}

		// generic (non-DID) transformer: document as is plus id, same metadata
		gtr := doctransformer.New(doctransformer.WithIncludePublishedOperations(o.incPub), doctransformer.WithIncludeUnpublishedOperations(o.incUnpub))
		rm2 := &protocol.ResolutionModel{Doc: libDoc(doc), RecoveryCommitment: s.recovery, UpdateCommitment: s.update, AnchorOrigin: s.origin,
			Deactivated: s.deactivated, CreatedTime: s.created, UpdatedTime: s.updated, VersionID: s.versionID,
			PublishedOperations: append([]*operation.AnchoredOperation{}, pub...), UnpublishedOperations: append([]*operation.AnchoredOperation{}, unpub...)}
		got2, err := gtr.TransformDocument(rm2, info)
		if err != nil {
			t.Fatalf("C18 generic TransformDocument: %v", err)
		}
		rt2, _ := jsonRoundTrip(got2)
		wantDoc := deepCopyValue(doc).(map[string]interface{})
		wantDoc["id"] = o.id
		g2, _ := rt2.(map[string]interface{})
		if refJCS(g2["didDocument"]) != refJCS(wantDoc) || refJCS(g2["didDocumentMetadata"]) != refJCS(want["didDocumentMetadata"]) {
			t.Fatalf("C18 generic transformer result differs\n got  %s\n want doc %s\n want metadata %s", refJCS(rt2), refJCS(wantDoc), refJCS(want["didDocumentMetadata"]))
		}

		// non-triviality: two keys of one type with different purpose sets; operation list where time and number order disagree
		sameTypeDifferentPurposes := false
		for i, a := range keys {
			for _, b := range keys[i+1:] {
				am, bm := a.(map[string]interface{}), b.(map[string]interface{})
				if am["type"] == bm["type"] && refJCS(am["purposes"]) != refJCS(bm["purposes"]) {
					sameTypeDifferentPurposes = true
				}
			}
		}
		labels := []string{fmt.Sprintf("base-%v", o.base), fmt.Sprintf("keys-%d", len(keys))}
		if sameTypeDifferentPurposes {
			labels = append(labels, "same-type-different-purposes")
		}
		if (d1 && o.incPub) || (d2 && o.incUnpub) {
			labels = append(labels, "time-number-order-disagree")
		}
		for _, k := range keys {
			labels = append(labels, "keytype-"+k.(map[string]interface{})["type"].(string))
		}
		st.Case(sameTypeDifferentPurposes || (d1 && o.incPub) || (d2 && o.incUnpub), refJCS(want), labels...)
		st.Sample("transform", 2, func() interface{} { return map[string]interface{}{"internal": doc, "result": want} })
	})
}
