package harness

// C17 — long-form DIDs resolve offline, only in their own namespace, to what was created.
// Oracles: refTransform over the document the caller supplied (keys / relationships compared as sets), refHash for
// suffix and commitments, determinism (metamorphic: create twice), and by-construction rejection of every tampered,
// re-encoded, foreign-namespace or short-form DID.

import (
	"encoding/base64"
	"encoding/json"
	"fmt"
	"net/url"
	"sort"
	"strings"
	"sync"
	"testing"

	gojose "github.com/go-jose/go-jose/v3"
	docdid "github.com/trustbloc/did-go/doc/did"
	"github.com/trustbloc/did-go/doc/did/endpoint"
	vdrapi "github.com/trustbloc/did-go/vdr/api"
	kmsjwk "github.com/trustbloc/kms-go/doc/jose/jwk"
	"pgregory.net/rapid"

	longform "github.com/trustbloc/sidetree-go/pkg/vdr/sidetreelongform"
	"github.com/trustbloc/sidetree-go/pkg/vdr/sidetreelongform/dochandler"
)

type c17Key struct {
	id       string
	typ      string
	key      *Key
	asBytes  bool // Ed25519VerificationKey2018 supplied as raw bytes (=> base58 in the document)
	purposes []string
}

var relOrder = []string{pAuth, pAssert, pDelegate, pInvoke, pAgree} // order in which the VDR walks the relationships

func relationshipOf(p string) docdid.VerificationRelationship {
	switch p {
	case pAuth:
		return docdid.Authentication
	case pAssert:
		return docdid.AssertionMethod
	case pDelegate:
		return docdid.CapabilityDelegation
	case pInvoke:
		return docdid.CapabilityInvocation
	}
	return docdid.KeyAgreement
}

type c17Doc struct {
	keys []c17Key
	svcs []interface{} // expected internal service entries
	doc  *docdid.Doc
	aka  []string
}

func genC17Doc(t *rapid.T) *c17Doc {
	d := &c17Doc{doc: &docdid.Doc{}}
	for _, id := range genUniqueIDs(t, 0, 4, "vmID") {
		typ := rapid.SampledFrom([]string{tEd2018, tEd2020, tJWK2020, tSecp2019}).Draw(t, "vmType")
		k := c17Key{id: id, typ: typ}
		switch typ {
		case tEd2018:
			k.key = genKeyOf(t, ktEd25519, "vmKey")
			k.asBytes = rapid.Bool().Draw(t, "asBytes")
		case tEd2020:
			k.key = genKeyOf(t, ktEd25519, "vmKey")
		case tSecp2019:
			k.key = genKeyOf(t, ktSecp256k1, "vmKey")
		default:
			k.key = genKeyOf(t, rapid.SampledFrom([]keyType{ktP256, ktP384, ktSecp256k1, ktEd25519}).Draw(t, "jwkKeyType"), "vmKey")
		}
		var allowed []string
		for _, p := range relOrder {
			if purposeAllowed(typ, p) {
				allowed = append(allowed, p)
			}
		}
		// a non-empty subset of the allowed relationships
		for _, p := range allowed {
			if rapid.Bool().Draw(t, "rel-"+p) {
				k.purposes = append(k.purposes, p)
			}
		}
		if len(k.purposes) == 0 {
			k.purposes = []string{allowed[0]}
		}
		// the verification method id as a caller may spell it: the fragment alone, with '#', or as a DID URL
		vmID := rapid.SampledFrom([]string{"", "", "#", "did:example:123#"}).Draw(t, "vmIDPrefix") + id
		var vm *docdid.VerificationMethod
		if k.asBytes {
			x, _ := k.key.XY()
			vm = docdid.NewVerificationMethodFromBytes(vmID, typ, "", x)
		} else {
			var err error
			vm, err = docdid.NewVerificationMethodFromJWK(vmID, typ, "", &kmsjwk.JWK{JSONWebKey: gojose.JSONWebKey{Key: k.key.Public()}})
			if err != nil {
				t.Fatalf("harness: NewVerificationMethodFromJWK: %v", err)
			}
		}
		for _, p := range k.purposes {
			v := *docdid.NewReferencedVerification(vm, relationshipOf(p))
			switch p {
			case pAuth:
				d.doc.Authentication = append(d.doc.Authentication, v)
			case pAssert:
				d.doc.AssertionMethod = append(d.doc.AssertionMethod, v)
			case pDelegate:
				d.doc.CapabilityDelegation = append(d.doc.CapabilityDelegation, v)
			case pInvoke:
				d.doc.CapabilityInvocation = append(d.doc.CapabilityInvocation, v)
			default:
				d.doc.KeyAgreement = append(d.doc.KeyAgreement, v)
			}
		}
		d.keys = append(d.keys, k)
	}
	for _, id := range genUniqueIDs(t, 0, 2, "svcID") {
		uri := rapid.SampledFrom(goodURIs[:4]).Draw(t, "svcURI")
		typ := rapid.SampledFrom([]string{"LinkedDomains", "DIDCommMessaging"}).Draw(t, "svcType")
		d.doc.Service = append(d.doc.Service, docdid.Service{ID: id, Type: typ, ServiceEndpoint: endpoint.NewDIDCommV1Endpoint(uri)})
		d.svcs = append(d.svcs, map[string]interface{}{"id": id, "type": typ, "serviceEndpoint": uri})
	}
	if rapid.Bool().Draw(t, "aka") {
		// did-go only accepts absolute URIs here
		seen := map[string]bool{}
		for i, n := 0, rapid.IntRange(1, 2).Draw(t, "naka"); i < n; i++ {
			// ... among them spellings that a URI parser would write differently (the document carries them as supplied)
			u := rapid.SampledFrom([]string{"https://example.com/a", "did:example:123", "https://a.b/c?d=e#f", "urn:uuid:6ba7b810-9dad-11d1-80b4-00c04fd430c8",
				"HTTP://Upper.example/me", "https://example.com/profile#", "https://example.com/zo\u00eb", "https://example.com/zo%C3%AB", "https://example.com/users/Alice", "https://example.com/x?"}).Draw(t, "akaURI")
			norm := u
			if pu, err := url.Parse(u); err == nil {
				norm = pu.String()
			}
			if !seen[norm] {
				seen[norm] = true
				d.aka = append(d.aka, u)
			}
		}
		d.doc.AlsoKnownAs = d.aka
	}
	if len(d.keys) == 0 && len(d.svcs) == 0 && len(d.aka) == 0 {
		d.doc.Service = append(d.doc.Service, docdid.Service{ID: "svc", Type: "t", ServiceEndpoint: endpoint.NewDIDCommV1Endpoint("https://example.com/a")})
		d.svcs = append(d.svcs, map[string]interface{}{"id": "svc", "type": "t", "serviceEndpoint": "https://example.com/a"})
	}
	return d
}

// expectedInternal is the internal document the caller asked for (keys in id order).
// estimatedDeltaSize is the size of the canonical delta a create request for this document needs, give or take a few bytes
// (a replace patch with the keys and services, an also-known-as patch, one commitment).
func (d *c17Doc) estimatedDeltaSize() int {
	internal, _ := d.expectedInternal()
	patches := []interface{}{map[string]interface{}{"action": "replace", "document": map[string]interface{}{"publicKeys": internal["publicKey"], "services": internal["service"]}}}
	if len(d.aka) > 0 {
		patches = append(patches, map[string]interface{}{"action": "add-also-known-as", "uris": internal["alsoKnownAs"]})
	}
	return len(refJCS(map[string]interface{}{"patches": patches, "updateCommitment": strings.Repeat("E", 46)}))
}

func (d *c17Doc) expectedInternal() (map[string]interface{}, map[string][]byte) {
	ed := map[string][]byte{}
	doc := map[string]interface{}{}
	ks := append([]c17Key{}, d.keys...)
	sort.Slice(ks, func(i, j int) bool { return ks[i].id < ks[j].id })
	var keys []interface{}
	for _, k := range ks {
		// purposes in the order the relationships are walked
		var ps []interface{}
		for _, p := range relOrder {
			for _, q := range k.purposes {
				if p == q {
					ps = append(ps, p)
				}
			}
		}
		e := map[string]interface{}{"id": k.id, "type": k.typ, "purposes": ps}
		x, _ := k.key.XY()
		if k.asBytes {
			e["publicKeyBase58"] = b58encode(x)
		} else {
			e["publicKeyJwk"] = docJWK(k.key)
			if k.key.Type == ktEd25519 {
				ed[k.id] = x
			}
		}
		keys = append(keys, e)
	}
	if len(keys) > 0 {
		doc["publicKey"] = keys
	}
	if len(d.svcs) > 0 {
		doc["service"] = d.svcs
	}
	if len(d.aka) > 0 {
		doc["alsoKnownAs"] = toIfaceList(d.aka)
	}
	return doc, ed
}

// canonicalizeResolution sorts verification methods by id and relationship lists, so that documents are compared as the
// sets they denote (the order of keys is not part of "equivalent to the one supplied").
func canonicalizeResolution(v interface{}) interface{} {
	m, ok := v.(map[string]interface{})
	if !ok {
		return v
	}
	doc, ok := m["didDocument"].(map[string]interface{})
	if !ok {
		return v
	}
	if vms, ok := doc["verificationMethod"].([]interface{}); ok {
		s := append([]interface{}{}, vms...)
		sort.SliceStable(s, func(i, j int) bool { return entryID(s[i]) < entryID(s[j]) })
		doc["verificationMethod"] = s
	}
	for _, r := range []string{"authentication", "assertionMethod", "keyAgreement", "capabilityDelegation", "capabilityInvocation"} {
		if l, ok := doc[r].([]interface{}); ok {
			s := append([]interface{}{}, l...)
			sort.SliceStable(s, func(i, j int) bool { return fmt.Sprint(s[i]) < fmt.Sprint(s[j]) })
			doc[r] = s
		}
	}
	if ctx, ok := doc["@context"].([]interface{}); ok && len(ctx) > 2 {
		// key contexts (after the DID context and @base) are listed per key type in order of first use: compare as a set
		head, tail := ctx[:2], append([]interface{}{}, ctx[2:]...)
		sort.SliceStable(tail, func(i, j int) bool { return fmt.Sprint(tail[i]) < fmt.Sprint(tail[j]) })
		doc["@context"] = append(append([]interface{}{}, head...), tail...)
	}
	return m
}

const didAlphabet = "ABCDEFGHIJKLMNOPQRSTUVWXYZabcdefghijklmnopqrstuvwxyz0123456789-_:"

func TestC17_LongForm(t *testing.T) {
	st := statsFor("C17")
	handlers := map[string]*dochandler.DocumentHandler{}
	handlerFor := func(ns string) *dochandler.DocumentHandler {
		if h, ok := handlers[ns]; ok {
			return h
		}
		h, err := dochandler.New(ns)
		if err != nil {
			t.Fatalf("dochandler.New(%s): %v", ns, err)
		}
		handlers[ns] = h
		return h
	}
	vdrs := map[string]*longform.VDR{}
	vdrFor := func(method string) *longform.VDR {
		if v, ok := vdrs[method]; ok {
			return v
		}
		v, err := longform.New(longform.WithDIDMethod(method))
		if err != nil {
			t.Fatalf("longform.New: %v", err)
		}
		vdrs[method] = v
		return v
	}
	check(t, "C17", 150, func(t *rapid.T) {
		method := rapid.SampledFrom([]string{"ion", "ion", "ionx", "io", "orb", "a1", "ion:test", "sidetree:local:dev", "bloc:trustbloc.dev", "ion:a.b+c"}).Draw(t, "method")
		ns := "did:" + method
		v := vdrFor(method)
		d := genC17Doc(t)
		upd, rec := genKey(t, "updateKey"), genKey(t, "recoveryKey")
		if rec.Commitment(18) == upd.Commitment(18) {
			upd = otherKey(t, rec)
		}
		opts := []vdrapi.DIDMethodOption{vdrapi.WithOption(longform.UpdatePublicKeyOpt, upd.Public()), vdrapi.WithOption(longform.RecoveryPublicKeyOpt, rec.Public())}
		sizeBoundary := rapid.IntRange(0, 3).Draw(t, "sizeBoundary") == 0
		if sizeBoundary {
			// grow a padding service until the document is the largest one Create still accepts
			mk := func(n int) (docdid.Service, map[string]interface{}) {
				uri := "https://pad.example/" + strings.Repeat("a", n)
				return docdid.Service{ID: "pad", Type: "Pad", ServiceEndpoint: endpoint.NewDIDCommV1Endpoint(uri)}, map[string]interface{}{"id": "pad", "type": "Pad", "serviceEndpoint": uri}
			}
			base := *d.doc
			lo, hi := -1, 2600 // lo: accepted (or -1), hi: refused
			for hi-lo > 1 {
				mid := (lo + hi) / 2
				sv, _ := mk(mid)
				trial := base
				trial.Service = append(append([]docdid.Service{}, base.Service...), sv)
				if _, err := v.Create(&trial, opts...); err == nil {
					lo = mid
				} else {
					hi = mid
				}
			}
			if lo >= 0 {
				n := lo - rapid.IntRange(0, 2).Draw(t, "belowBoundary")
				if n < 0 {
					n = 0
				}
				sv, want := mk(n)
				d.doc.Service = append(d.doc.Service, sv)
				d.svcs = append(d.svcs, want)
			} else {
				sizeBoundary = false
			}
		}
		res, err := v.Create(d.doc, opts...)
		if err != nil {
			// the long-form protocol limits a delta to 1700 and an operation to 2500 bytes: a refusal is legitimate only for
			// a document that is large by the harness' own estimate (the error text is not consulted)
			if est := d.estimatedDeltaSize(); est > 1450 {
				st.Exclude("create refused for a document whose delta is estimated above 1450 bytes (limit 1700 / 2500)")
				return
			} else {
				t.Fatalf("C17 VDR.Create refused an acceptable document (estimated delta %d bytes): %v", est, err)
			}
		}
		did := res.DIDDocument.ID
		// structure: namespace ':' suffix ':' initial state
		if !strings.HasPrefix(did, ns+":") || strings.Count(did[len(ns)+1:], ":") != 1 {
			t.Fatalf("C17 created DID has unexpected shape: %s", did)
		}
		rest := did[len(ns)+1:]
		suffix, state := rest[:strings.Index(rest, ":")], rest[strings.Index(rest, ":")+1:]
		reqBytes, err := base64.RawURLEncoding.DecodeString(state)
		if err != nil {
			t.Fatalf("C17 initial state is not unpadded base64url: %v", err)
		}
		var req map[string]interface{}
		if err := json.Unmarshal(reqBytes, &req); err != nil {
			t.Fatalf("C17 initial state is not JSON: %v", err)
		}
		if string(reqBytes) != refJCS(req) {
			t.Fatalf("C17 initial state is not canonical JSON")
		}
		if suffix != refHash(req["suffixData"], 18) {
			t.Fatalf("C17 suffix %q is not the hash of the suffix data %q", suffix, refHash(req["suffixData"], 18))
		}
		// determinism: the same document and keys always give the same DID
		for i := 0; i < 2; i++ {
			again, err := v.Create(d.doc, opts...)
			if err != nil || again.DIDDocument.ID != did {
				t.Fatalf("C17 Create is not deterministic for a document with %d keys:\n first  %s\n second %s (%v)", len(d.keys), did, again.DIDDocument.ID, err)
			}
		}

		// resolution: what was created
		internal, ed := d.expectedInternal()
		want := refTransform(stateForTransform{doc: internal, edKeyOfEntry: ed, recovery: rec.Commitment(18), update: upd.Commitment(18)},
			transformOpts{base: true, published: false, id: did, equivalent: []string{ns + ":" + suffix}})
		h := handlerFor(ns)
		rr, err := h.ResolveDocument(did)
		if err != nil {
			t.Fatalf("C17 ResolveDocument(created DID) failed: %v\n%s", err, did)
		}
		rt, _ := jsonRoundTrip(rr)
		if g, w := refJCS(canonicalizeResolution(deepCopyValue(rt))), refJCS(canonicalizeResolution(deepCopyValue(want))); g != w {
			t.Fatalf("C17 long-form DID does not resolve to the document supplied\n got  %s\n want %s", g, w)
		}
		// the member "type" of the initial state is optional (the Sidetree long form carries suffix data and delta only): the
		// DID spelled without it is another long-form DID of the same suffix; it resolves, under the id that was asked for
		{
			noType := deepCopyValue(req).(map[string]interface{})
			delete(noType, "type")
			did0 := ns + ":" + suffix + ":" + b64([]byte(refJCS(noType)))
			want0 := refTransform(stateForTransform{doc: internal, edKeyOfEntry: ed, recovery: rec.Commitment(18), update: upd.Commitment(18)},
				transformOpts{base: true, published: false, id: did0, equivalent: []string{ns + ":" + suffix}})
			r0, err := h.ResolveDocument(did0)
			if err != nil {
				t.Fatalf("C17 long-form DID whose initial state has no type member does not resolve: %v\n%s", err, did0)
			}
			rt0, _ := jsonRoundTrip(r0)
			if g, w := refJCS(canonicalizeResolution(deepCopyValue(rt0))), refJCS(canonicalizeResolution(deepCopyValue(want0))); g != w {
				t.Fatalf("C17 long-form DID without type member resolves to another result than asked for\n got  %s\n want %s", g, w)
			}
			st.Label("initial-state-without-type")
		}
		// every character of the namespace counts literally (a dot is a dot)
		for i := 4; i < len(ns); i++ {
			if strings.ContainsRune(".+*?()[]", rune(ns[i])) {
				mustRejectEarly := ns[:i] + "x" + ns[i+1:] + did[len(ns):]
				if r, err := h.ResolveDocument(mustRejectEarly); err == nil {
					t.Fatalf("C17 handler of %s resolved a DID of namespace %s (as %s)", ns, ns[:i]+"x"+ns[i+1:], r.Document.ID())
				}
			}
		}
		// through the VDR
		read, err := v.Read(did)
		if err != nil {
			t.Fatalf("C17 VDR.Read(created DID) failed: %v", err)
		}
		if read.DIDDocument.ID != did || len(read.DIDDocument.VerificationMethod) != len(d.keys) || len(read.DIDDocument.Service) != len(d.svcs) {
			t.Fatalf("C17 VDR.Read: id %q, %d verification methods, %d services; want %q %d %d", read.DIDDocument.ID,
				len(read.DIDDocument.VerificationMethod), len(read.DIDDocument.Service), did, len(d.keys), len(d.svcs))
		}
		if read.DocumentMetadata == nil || read.DocumentMetadata.Method == nil || read.DocumentMetadata.Method.RecoveryCommitment != rec.Commitment(18) ||
			read.DocumentMetadata.Method.UpdateCommitment != upd.Commitment(18) || len(read.DocumentMetadata.EquivalentID) == 0 || read.DocumentMetadata.EquivalentID[0] != ns+":"+suffix {
			t.Fatalf("C17 VDR.Read metadata does not report the create request's commitments / short form: %+v", read.DocumentMetadata)
		}
		createdJSON, _ := json.Marshal(res.DIDDocument)
		readJSON, _ := json.Marshal(read.DIDDocument)
		if string(createdJSON) != string(readJSON) {
			t.Fatalf("C17 document returned by Create differs from the one Read resolves\n create %s\n read   %s", createdJSON, readJSON)
		}
		// processing the create request gives the same result as resolving the DID it returns
		pr, err := h.ProcessOperation(reqBytes)
		if err != nil {
			t.Fatalf("C17 ProcessOperation(create request): %v", err)
		}
		prt, _ := jsonRoundTrip(pr)
		if pid, _ := prt.(map[string]interface{})["didDocument"].(map[string]interface{})["id"].(string); pid != did {
			t.Fatalf("C17 ProcessOperation returns id %q, want %q", pid, did)
		}
		if refJCS(prt) != refJCS(rt) {
			t.Fatalf("C17 ProcessOperation and ResolveDocument disagree\n process %s\n resolve %s", refJCS(prt), refJCS(rt))
		}
		// the same create request in another JSON spelling denotes the same DID, and the DID returned for it resolves
		spelled := []byte(spell(t, req, 2))
		if len(spelled) <= 2500 { // the built-in protocol's operation size limit applies to the bytes as received
			pr2, err := h.ProcessOperation(spelled)
			if err != nil {
				t.Fatalf("C17 ProcessOperation refused a re-spelled create request: %v\n%s", err, spelled)
			}
			if pr2.Document.ID() != did {
				t.Fatalf("C17 ProcessOperation returns another DID for a re-spelled create request:\n %s\n %s", pr2.Document.ID(), did)
			}
			if _, err := h.ResolveDocument(pr2.Document.ID()); err != nil {
				t.Fatalf("C17 the DID returned by ProcessOperation does not resolve: %v", err)
			}
			st.Label("process-respelled")
		}

		// update and recovery keys are optional: without them Create makes its own, and the DID it returns resolves all the same
		if rapid.IntRange(0, 3).Draw(t, "defaultKeys") == 0 {
			var partial []vdrapi.DIDMethodOption
			switch rapid.IntRange(0, 2).Draw(t, "whichDefault") {
			case 1:
				partial = opts[:1]
			case 2:
				partial = opts[1:]
			}
			rd, err := v.Create(d.doc, partial...)
			if err != nil {
				t.Fatalf("C17 VDR.Create without %d of its optional keys refused an acceptable document: %v", 2-len(partial), err)
			}
			if _, err := h.ResolveDocument(rd.DIDDocument.ID); err != nil {
				t.Fatalf("C17 DID created with default keys does not resolve: %v", err)
			}
			if back, err := v.Read(rd.DIDDocument.ID); err != nil || back.DIDDocument.ID != rd.DIDDocument.ID || len(back.DIDDocument.VerificationMethod) != len(d.keys) {
				t.Fatalf("C17 VDR.Read of a DID created with default keys: %v", err)
			}
			st.Label("default-keys")
		}
		// a result handed out stays what it was while the same handler and VDR resolve another DID
		{
			marker := docdid.Service{ID: "held", Type: "Other", ServiceEndpoint: endpoint.NewDIDCommV1Endpoint("https://held.example/" + suffix[:8])}
			res2, err := v.Create(&docdid.Doc{Service: []docdid.Service{marker}}, opts...)
			if err != nil {
				t.Fatalf("C17 VDR.Create(second document): %v", err)
			}
			did2 := res2.DIDDocument.ID
			rr2, err := h.ResolveDocument(did2)
			if err != nil || rr2.Document.ID() != did2 {
				t.Fatalf("C17 second DID does not resolve: %v", err)
			}
			if _, err := v.Read(did2); err != nil {
				t.Fatalf("C17 VDR.Read(second DID): %v", err)
			}
			if after, _ := jsonRoundTrip(rr); refJCS(after) != refJCS(rt) {
				t.Fatalf("C17 a resolution result changed after the same handler resolved another DID\n before %s\n after  %s", refJCS(rt), refJCS(after))
			}
			if after, _ := json.Marshal(read.DIDDocument); string(after) != string(readJSON) {
				t.Fatalf("C17 a document returned by VDR.Read changed after the same VDR read another DID\n before %s\n after  %s", readJSON, after)
			}
			if len(d.keys) == 0 {
				st.Label("held-result-without-keys")
			}
		}

		mustReject := func(what, bad string) {
			if bad == did {
				return
			}
			if r, err := h.ResolveDocument(bad); err == nil {
				t.Fatalf("C17 %s resolved (as %s)\n tampered %s\n created  %s", what, r.Document.ID(), bad, did)
			}
			if _, err := v.Read(bad); err == nil {
				t.Fatalf("C17 VDR.Read accepted %s: %s", what, bad)
			}
		}
		// single-character substitutions (every position in thorough, sampled in quick)
		positions := len(did)
		nsub := 120
		if thorough() {
			nsub = positions
		}
		tamperJSON := 0
		for i := 0; i < nsub; i++ {
			pos := i
			if !thorough() {
				// weight the tail (type member), the separators and the prefix together with uniform positions
				switch rapid.IntRange(0, 5).Draw(t, "posKind") {
				case 0:
					pos = rapid.IntRange(positions-24, positions-1).Draw(t, "tailPos")
				case 1:
					pos = rapid.IntRange(0, len(ns)+1+len(suffix)).Draw(t, "headPos")
				default:
					pos = rapid.IntRange(0, positions-1).Draw(t, "pos")
				}
			}
			var c byte
			if thorough() {
				c = didAlphabet[(pos*7+i*13+int(did[pos]))%len(didAlphabet)]
				if c == did[pos] {
					c = didAlphabet[(strings.IndexByte(didAlphabet, c)+1)%len(didAlphabet)]
				}
			} else {
				c = didAlphabet[rapid.IntRange(0, len(didAlphabet)-1).Draw(t, "char")]
			}
			if c == did[pos] {
				continue
			}
			bad := did[:pos] + string(c) + did[pos+1:]
			mustReject(fmt.Sprintf("DID with character %d substituted (%q -> %q)", pos, did[pos], c), bad)
			if pos > len(ns)+1+len(suffix) {
				if b, err := base64.RawURLEncoding.DecodeString(bad[len(ns)+2+len(suffix):]); err == nil && json.Valid(b) {
					tamperJSON++
				}
			}
			st.Label("substitution")
		}
		// every character of the type member's value (the only member no hash binds)
		tail := `"type":"create"}`
		if strings.HasSuffix(string(reqBytes), tail) {
			for i := 0; i < 6; i++ {
				b := append([]byte{}, reqBytes...)
				p := len(b) - 3 - i
				b[p] = "xyzABC"[i]
				mustReject("initial state with modified type value", ns+":"+suffix+":"+base64.RawURLEncoding.EncodeToString(b))
				tamperJSON++
			}
			for _, typ := range []string{"update", "deactivate", "recover", "", "Create"} {
				r2 := deepCopyValue(req).(map[string]interface{})
				r2["type"] = typ
				mustReject("initial state of type "+typ, ns+":"+suffix+":"+b64([]byte(refJCS(r2))))
				tamperJSON++
			}
		}
		// re-encodings of the initial state
		for name, enc := range map[string]string{
			"whitespace":     b64([]byte(strings.Replace(string(reqBytes), ":", ": ", 1))),
			"member order":   b64([]byte(`{"type":"create",` + string(reqBytes[1:len(reqBytes)-len(`,"type":"create"}`)]) + `}`)),
			"padding":        state + "=",
			"padded":         base64.URLEncoding.EncodeToString(reqBytes),
			"std alphabet":   base64.RawStdEncoding.EncodeToString(reqBytes),
			"trailing bits":  nonCanonicalTail(state),
			"escaped string": b64([]byte(strings.Replace(string(reqBytes), `"create"`, `"create"`, 1))),
			"extra member":   b64([]byte(strings.Replace(string(reqBytes), `"type":"create"`, `"type":"create","x":1`, 1))),
			"empty state":    "",
		} {
			mustReject("initial state re-encoded ("+name+")", ns+":"+suffix+":"+enc)
		}
		// the suffix segment with something in front of, behind or inside the right suffix, or edited in any small way. (Further
		// colon-separated segments between namespace and suffix are a different matter: "did:ion:x:<suffix>:<state>" begins
		// with the namespace and a colon and ends with suffix and state, which is all the property asks for.)
		for _, bs := range []string{"x" + suffix, suffix + "x", "Ei" + suffix, "label-" + suffix, suffix + suffix, suffix[:len(suffix)/2] + ":" + suffix[len(suffix)/2:], suffix + ":"} {
			mustReject("DID whose suffix segment is "+bs, ns+":"+bs+":"+state)
		}
		for i := 0; i < 4; i++ {
			es, how := editString(t, suffix)
			if strings.ContainsAny(es, " \n\t") {
				continue
			}
			mustReject("DID whose suffix was edited ("+how+")", ns+":"+es+":"+state)
		}
		// short form, other suffix, other request's state
		mustReject("short-form DID", ns+":"+suffix)
		otherSuffix := refHash(map[string]interface{}{"other": "suffix data"}, 18)
		mustReject("DID whose suffix belongs to other suffix data", ns+":"+otherSuffix+":"+state)
		// text in front of the DID: it does not begin with the handler's namespace any more, wherever the namespace occurs later
		{
			prefix := rapid.SampledFrom([]string{"x", " ", "did:web:", "did:" + method + "x:", "urn:", "did:", ":", "\n", "did:" + method + ";", "#"}).Draw(t, "textInFront")
			if rapid.IntRange(0, 3).Draw(t, "randomTextInFront") == 0 {
				prefix = genString(t, 3) + prefix
			}
			if bad := prefix + did; !strings.HasPrefix(bad, ns+":") {
				mustReject(fmt.Sprintf("DID with %q in front of it", prefix), bad)
				st.Label("text-in-front")
			}
		}
		// namespaces related by prefix
		for _, om := range []string{"ion", "ionx", "io", "i", "orb", "a1", "a", "a12"} {
			if om == method || strings.HasPrefix(method, om+":") || strings.HasPrefix(om, method+":") {
				continue // nested namespaces (did:ion vs did:ion:test) are not "another method": nothing is asserted
			}
			oh := handlerFor("did:" + om)
			if r, err := oh.ResolveDocument(did); err == nil {
				t.Fatalf("C17 handler of namespace did:%s resolved a DID of method %s as %s", om, method, r.Document.ID())
			}
			// the same suffix and state under the foreign namespace is a different DID of that namespace: it resolves there
			if _, err := oh.ResolveDocument("did:" + om + ":" + suffix + ":" + state); err != nil {
				t.Fatalf("C17 handler did:%s refused its own well-formed long-form DID: %v", om, err)
			}
			if _, err := vdrFor(om).Read(did); err == nil {
				t.Fatalf("C17 VDR of method %s read a DID of method %s", om, method)
			}
			st.Label("foreign-namespace")
		}
		labels := []string{"method-" + method, fmt.Sprintf("keys-%d", len(d.keys))}
		if sizeBoundary {
			labels = append(labels, "size-boundary")
		}
		for _, k := range d.keys {
			labels = append(labels, "vm-"+k.typ)
			if len(k.purposes) > 1 {
				labels = append(labels, "multi-purpose-key")
			}
		}
		st.Case(len(d.keys) >= 2 || tamperJSON > 0, did, labels...)
		st.Sample("did", 2, func() interface{} { return map[string]interface{}{"did": clip(did, 600), "request": req} })
	})
}

// TestC17_Concurrent: creation is deterministic and created DIDs resolve also when one VDR and one handler serve several
// goroutines at once (the sequential results are the reference).
func TestC17_Concurrent(t *testing.T) {
	st := statsFor("C17")
	v, err := longform.New()
	if err != nil {
		t.Fatal(err)
	}
	h, err := dochandler.New("did:ion")
	if err != nil {
		t.Fatal(err)
	}
	check(t, "C17", 12, func(t *rapid.T) {
		n := rapid.IntRange(2, 8).Draw(t, "goroutines")
		rounds := rapid.IntRange(2, 10).Draw(t, "rounds")
		type job struct {
			doc  *docdid.Doc
			opts []vdrapi.DIDMethodOption
			did  string
			json string
		}
		var jobs []job
		for len(jobs) < n {
			d := genC17Doc(t)
			upd, rec := genKey(t, "updateKey"), genKey(t, "recoveryKey")
			if rec.Commitment(18) == upd.Commitment(18) {
				upd = otherKey(t, rec)
			}
			opts := []vdrapi.DIDMethodOption{vdrapi.WithOption(longform.UpdatePublicKeyOpt, upd.Public()), vdrapi.WithOption(longform.RecoveryPublicKeyOpt, rec.Public())}
			res, err := v.Create(d.doc, opts...)
			if err != nil {
				if d.estimatedDeltaSize() > 1450 {
					continue
				}
				t.Fatalf("C17 VDR.Create refused an acceptable document: %v", err)
			}
			rr, err := h.ResolveDocument(res.DIDDocument.ID)
			if err != nil {
				t.Fatalf("C17 created DID does not resolve: %v", err)
			}
			rt, _ := jsonRoundTrip(rr)
			jobs = append(jobs, job{d.doc, opts, res.DIDDocument.ID, refJCS(rt)})
		}
		errs := make(chan string, n)
		var wg sync.WaitGroup
		for i := range jobs {
			wg.Add(1)
			go func(j job) {
				defer wg.Done()
				defer func() {
					if r := recover(); r != nil {
						errs <- fmt.Sprintf("panic: %v", r)
					}
				}()
				for r := 0; r < rounds; r++ {
					res, err := v.Create(j.doc, j.opts...)
					if err != nil {
						errs <- fmt.Sprintf("Create fails for a document it accepted sequentially: %v", err)
						return
					}
					if res.DIDDocument.ID != j.did {
						errs <- fmt.Sprintf("Create gives another DID than sequentially:\n %s\n %s", j.did, res.DIDDocument.ID)
						return
					}
					rr, err := h.ResolveDocument(j.did)
					if err != nil {
						errs <- fmt.Sprintf("created DID does not resolve: %v\n %s", err, j.did)
						return
					}
					if rt, _ := jsonRoundTrip(rr); refJCS(rt) != j.json {
						errs <- "resolution result differs from the sequential one for " + j.did
						return
					}
					if _, err := v.Read(j.did); err != nil {
						errs <- fmt.Sprintf("VDR.Read: %v", err)
						return
					}
				}
			}(jobs[i])
		}
		awaitWorkers(t, &wg, "C17 concurrent create / resolve")
		close(errs)
		for e := range errs {
			t.Fatalf("C17 (with %d goroutines at the same time) %s", n, e)
		}
		st.Case(n >= 4, fmt.Sprint("concurrent|", n, rounds, jobs[0].did), "concurrent", fmt.Sprintf("goroutines-%d", n))
	})
}
