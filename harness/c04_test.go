package harness

// C04 — commitment / reveal-value algebra links consecutive operations.
// Oracle: refHash / refCommitmentOf over the harness' own JWK encoding; chain linkage as an invariant over a well-formed
// chain create -> (update | recover)* -> deactivate built by the harness.

import (
	"fmt"
	"sync"
	"testing"

	"github.com/trustbloc/sidetree-go/pkg/commitment"
	"github.com/trustbloc/sidetree-go/pkg/jws"
	"github.com/trustbloc/sidetree-go/pkg/versions/1_0/operationparser"
	"pgregory.net/rapid"
)

func TestC04_Algebra(t *testing.T) {
	st := statsFor("C04")
	check(t, "C04", 3000, func(t *rapid.T) {
		k := genKey(t, "key")
		if rapid.IntRange(0, 3).Draw(t, "fresh") == 0 {
			k = genFreshKey(t, k.Type)
		}
		if rapid.Bool().Draw(t, "nonce") {
			k = k.WithNonce(genNonce(t, rapid.SampledFrom([]int{1, 8, 16, 32}).Draw(t, "nonceSize"), "nonceBytes"))
		}
		alg := rapid.SampledFrom([]uint{18, 19}).Draw(t, "alg")
		j := k.LibJWK()
		rv, err := commitment.GetRevealValue(j, alg)
		if err != nil || rv != k.Reveal(alg) {
			t.Fatalf("C04 reveal value of %s = %q (%v), reference %q\n jwk=%s", k.Name, rv, err, k.Reveal(alg), refJCS(k.JWKValue()))
		}
		c, err := commitment.GetCommitment(j, alg)
		if err != nil || c != k.Commitment(alg) {
			t.Fatalf("C04 commitment of %s (alg %d) = %q (%v), reference %q", k.Name, alg, c, err, k.Commitment(alg))
		}
		fromRV, err := commitment.GetCommitmentFromRevealValue(rv)
		if err != nil || fromRV != c {
			t.Fatalf("C04 commitment derived from the reveal value = %q (%v), key's commitment %q", fromRV, err, c)
		}
		if c == rv {
			t.Fatalf("C04 commitment equals reveal value")
		}
		// a reveal value of an algorithm that is not supported has no commitment
		for _, code := range []uint{17, 20, 22, 0} {
			foreign := b64(refMultihashBytes(code, make([]byte, 32)))
			if d, err := commitment.GetCommitmentFromRevealValue(foreign); err == nil {
				t.Fatalf("C04 GetCommitmentFromRevealValue(%q: multihash code %d, not supported) = %q without an error", foreign, code, d)
			}
		}
		// a key differing in exactly one member has another commitment and reveal value
		j2 := *j
		how := rapid.SampledFrom([]string{"nonce", "x", "y", "crv", "kty", "nonce-added-or-removed"}).Draw(t, "differs")
		switch how {
		case "nonce":
			j2.Nonce = genNonce(t, 16, "otherNonce")
			if j2.Nonce == j.Nonce {
				j2.Nonce = b64([]byte("another nonce..."))
			}
		case "nonce-added-or-removed":
			if j.Nonce == "" {
				j2.Nonce = b64(make([]byte, 16))
			} else {
				j2.Nonce = ""
			}
		case "x":
			j2.X = otherKey(t, k).LibJWK().X
		case "y":
			j2.Y = b64([]byte{1, 2, 3})
			if j2.Y == j.Y {
				j2.Y = ""
			}
		case "crv":
			j2.Crv = rapid.SampledFrom([]string{"P-256", "secp256k1", "Ed25519", "X25519"}).Filter(func(s string) bool { return s != j.Crv }).Draw(t, "otherCrv")
		default:
			if j.Kty == "EC" {
				j2.Kty = "OKP"
			} else {
				j2.Kty = "EC"
			}
		}
		c2, err2 := commitment.GetCommitment(&j2, alg)
		rv2, err3 := commitment.GetRevealValue(&j2, alg)
		if err2 != nil || err3 != nil {
			t.Fatalf("C04 commitment of modified key: %v %v", err2, err3)
		}
		if c2 == c || rv2 == rv {
			t.Fatalf("C04 keys differing in %s have the same commitment/reveal value: %+v vs %+v", how, j, j2)
		}
		labels := []string{"type-" + k.Type.String(), fmt.Sprintf("alg-%d", alg), "differs-" + how}
		nontrivial := k.Nonce != "" || k.Type == ktEd25519
		if k.Nonce != "" {
			labels = append(labels, "with-nonce")
		}
		if k.Type == ktEd25519 {
			labels = append(labels, "empty-y")
		}
		st.Case(nontrivial, refJCS(k.JWKValue())+fmt.Sprint(alg)+how, labels...)
		st.Sample("key", 3, func() interface{} {
			return map[string]interface{}{"jwk": k.JWKValue(), "alg": alg, "reveal": rv, "commitment": c}
		})
	})
}

var _ jws.JWK

// TestC04_OtherKeyShapes: the algebra is stated for every public key, not only for the types the signers support: a JWK
// value with any member contents (RSA-shaped n/e, with or without nonce, arbitrary strings) hashes like its canonical form.
func TestC04_OtherKeyShapes(t *testing.T) {
	st := statsFor("C04")
	check(t, "C04", 1500, func(t *rapid.T) {
		str := func(l string) string {
			if rapid.IntRange(0, 3).Draw(t, l+"-empty") == 0 {
				return ""
			}
			if rapid.IntRange(0, 3).Draw(t, l+"-tricky") == 0 {
				return rapid.SampledFrom(trickyStrings).Draw(t, l+"-s")
			}
			return b64(rapid.SliceOfN(rapid.Byte(), 1, 40).Draw(t, l))
		}
		j := &jws.JWK{Kty: rapid.SampledFrom([]string{"RSA", "EC", "OKP", "oct", "x"}).Draw(t, "kty"), Crv: str("crv"), X: str("x"), Y: str("y"),
			N: str("n"), E: rapid.SampledFrom([]string{"", "AQAB", "AQAB", "Aw"}).Draw(t, "e"), Nonce: str("nonce")}
		want := map[string]interface{}{"kty": j.Kty, "crv": j.Crv, "x": j.X, "y": j.Y}
		for name, v := range map[string]string{"n": j.N, "e": j.E, "nonce": j.Nonce} {
			if v != "" { // these three members are left out when empty
				want[name] = v
			}
		}
		alg := rapid.SampledFrom([]uint{18, 19}).Draw(t, "alg")
		rv, err := commitment.GetRevealValue(j, alg)
		if err != nil || rv != refHash(want, alg) {
			t.Fatalf("C04 reveal value of %s = %q (%v), reference %q", refJCS(want), rv, err, refHash(want, alg))
		}
		c, err := commitment.GetCommitment(j, alg)
		if err != nil || c != refCommitmentOf(want, alg) {
			t.Fatalf("C04 commitment of %s = %q (%v), reference %q", refJCS(want), c, err, refCommitmentOf(want, alg))
		}
		if d, err := commitment.GetCommitmentFromRevealValue(rv); err != nil || d != c {
			t.Fatalf("C04 commitment derived from the reveal value = %q (%v), key's commitment %q", d, err, c)
		}
		labels := []string{"shape-" + j.Kty}
		prefixNames := j.N != "" && j.Nonce != ""
		if prefixNames {
			labels = append(labels, "members-n-and-nonce")
		}
		st.Case(prefixNames || j.Kty == "RSA", "shape|"+refJCS(want)+fmt.Sprint(alg), labels...)
		st.Sample("other-shape", 2, func() interface{} {
			return map[string]interface{}{"jwk": want, "alg": alg, "reveal": rv, "commitment": c}
		})
	})
}

// TestC04_Concurrent: the algebra holds for every key also when many keys are hashed at the same time (one shared parser,
// package-level hashing functions). The oracle is the same reference; the schedule is whatever the runtime produces.
func TestC04_Concurrent(t *testing.T) {
	st := statsFor("C04")
	check(t, "C04", 40, func(t *rapid.T) {
		p := wideProtocol()
		stack := newStack(p)
		n := rapid.IntRange(2, 8).Draw(t, "goroutines")
		type job struct {
			k      *Key
			alg    uint
			raw    []byte
			reveal string
			next   string
		}
		jobs := make([]job, n)
		for i := range jobs {
			k := genNoncedKey(t, p, "key")
			alg := rapid.SampledFrom([]uint{18, 19}).Draw(t, "alg")
			next := otherKey(t, k)
			b := newUpdate(alg, "suffix", k, next, []interface{}{map[string]interface{}{"action": "add-also-known-as", "uris": []interface{}{"https://c.example/"}}}, 0, 0)
			jobs[i] = job{k: k, alg: alg, raw: b.bytes(), reveal: b.Reveal, next: next.Commitment(alg)}
		}
		rounds := rapid.IntRange(5, 40).Draw(t, "rounds")
		errs := make(chan string, n)
		var wg sync.WaitGroup
		for i := range jobs {
			wg.Add(1)
			go func(j job) {
				defer wg.Done()
				lib := j.k.LibJWK()
				for r := 0; r < rounds; r++ {
					rv, err := commitment.GetRevealValue(lib, j.alg)
					if err != nil || rv != j.k.Reveal(j.alg) {
						errs <- fmt.Sprintf("reveal value of %s = %q (%v), reference %q", j.k.Name, rv, err, j.k.Reveal(j.alg))
						return
					}
					c, err := commitment.GetCommitment(lib, j.alg)
					if err != nil || c != j.k.Commitment(j.alg) {
						errs <- fmt.Sprintf("commitment of %s = %q (%v), reference %q", j.k.Name, c, err, j.k.Commitment(j.alg))
						return
					}
					if d, err := commitment.GetCommitmentFromRevealValue(rv); err != nil || d != c {
						errs <- fmt.Sprintf("commitment derived from the reveal value of %s = %q (%v), want %q", j.k.Name, d, err, c)
						return
					}
					if got, err := stack.Parser.GetRevealValue(j.raw); err != nil || got != j.reveal {
						errs <- fmt.Sprintf("parser reports reveal value %q (%v), request carries %q", got, err, j.reveal)
						return
					}
					if got, err := stack.Parser.GetCommitment(j.raw); err != nil || got != j.next {
						errs <- fmt.Sprintf("parser reports next commitment %q (%v), request carries %q", got, err, j.next)
						return
					}
				}
			}(jobs[i])
		}
		awaitWorkers(t, &wg, "C04 concurrent hashing")
		close(errs)
		for e := range errs {
			t.Fatalf("C04 (with %d goroutines hashing at the same time) %s", n, e)
		}
		st.Case(n >= 4, fmt.Sprint("concurrent|", n, rounds, jobs[0].k.Name, jobs[0].alg), "concurrent", fmt.Sprintf("goroutines-%d", n))
	})
}

type rejectingOriginValidator struct{}

func (rejectingOriginValidator) Validate(interface{}) error {
	return fmt.Errorf("anchor origin not accepted here")
}

func TestC04_Chain(t *testing.T) {
	st := statsFor("C04")
	check(t, "C04", 600, func(t *rapid.T) {
		p := wideProtocol()
		p.MultihashAlgorithms = rapid.SampledFrom([][]uint{{18, 19}, {19, 18}, {18}, {19}}).Draw(t, "algs")
		stack := newStack(p)
		// chain look-ups work on anchored operations: they must not depend on submission-time checks (time / origin
		// validators, enabled patch actions, delta size). The linking parser below refuses every non-batch request.
		linkCfg := p
		if rapid.Bool().Draw(t, "strictLinkingParser") {
			linkCfg.Patches = nil
			linkCfg.MaxDeltaSize = 1
		}
		linker := newStack(linkCfg, operationparser.WithAnchorTimeValidator(&recordingTimeValidator{err: operationparser.ErrOperationExpired}),
			operationparser.WithAnchorOriginValidator(rejectingOriginValidator{}))
		alg := func(l string) uint { return rapid.SampledFrom(p.MultihashAlgorithms).Draw(t, l) }
		key := func(l string) *Key { return genNoncedKey(t, p, l) }

		// create
		a0 := alg("createAlg")
		rec, upd := key("recovery0"), key("update0")
		if rec.Commitment(a0) == upd.Commitment(a0) {
			upd = otherKey(t, rec)
		}
		patches := []interface{}{map[string]interface{}{"action": "add-also-known-as", "uris": []interface{}{"https://chain.example/"}}}
		cr := newCreate(a0, rec, upd, patches, nil, "")
		suffix := cr.suffixFor(p.MultihashAlgorithms[0])
		if _, err := linker.Parser.GetRevealValue(cr.bytes()); err == nil {
			t.Fatalf("C04 GetRevealValue(create) must fail (a create reveals nothing)")
		}
		if _, err := linker.Parser.GetCommitment(cr.bytes()); err == nil {
			t.Fatalf("C04 GetCommitment(create) must fail (not part of a chain lookup)")
		}
		parsedCreate, err := linker.Parser.ParseCreateOperation(cr.bytes(), true)
		if err != nil {
			t.Fatalf("C04 harness: create refused: %v", err)
		}
		// commitments as the parser reports them for the predecessor on each chain, with the algorithm they were made with
		updCommit, updAlg := parsedCreate.Delta.UpdateCommitment, a0
		recCommit, recAlg := parsedCreate.SuffixData.RecoveryCommitment, a0
		if updCommit != upd.Commitment(a0) || recCommit != rec.Commitment(a0) {
			t.Fatalf("C04 parsed create reports other commitments than the request carries")
		}
		steps := rapid.IntRange(1, 9).Draw(t, "steps")
		var kinds []string
		upupLinks, recLinks := 0, 0
		prevKind := "create"
		for s := 0; s < steps; s++ {
			last := s == steps-1
			kind := rapid.SampledFrom([]string{"update", "update", "recover"}).Draw(t, "kind")
			if last {
				kind = "deactivate"
			}
			a := alg("opAlg")
			var b *opBuild
			switch kind {
			case "update":
				next := key("nextUpdate")
				if next.Commitment(a) == upd.Commitment(a) {
					next = otherKey(t, upd)
				}
				wf, wu := clampWindow(genWindow(t, 5))
				b = newUpdate(a, suffix, upd, next, patches, wf, wu)
				b.Reveal = upd.Reveal(updAlg) // the reveal value answers the commitment: same algorithm as that commitment
				b.assemble()
			case "recover":
				nr, nu := key("nextRecovery"), key("nextUpdate")
				if nr.Commitment(a) == rec.Commitment(a) {
					nr = otherKey(t, rec)
				}
				if nu.Commitment(a) == nr.Commitment(a) {
					nu = otherKey(t, nr)
				}
				wf, wu := clampWindow(genWindow(t, 5))
				b = newRecover(a, suffix, rec, nr, nu, patches, genOrigin(t), wf, wu)
				b.Reveal = rec.Reveal(recAlg)
				b.assemble()
			default:
				wf, wu := clampWindow(genWindow(t, 5))
				b = newDeactivate(a, suffix, rec, wf, wu)
				b.Reveal = rec.Reveal(recAlg)
				if rapid.Bool().Draw(t, "deactivateExtraMembers") {
					// members of other operation types in the signed data of a deactivate mean nothing: there is no next commitment
					for _, name := range []string{"recoveryCommitment", "updateCommitment", "deltaHash"} {
						if rapid.Bool().Draw(t, "extra-"+name) {
							b.Signed[name] = key("extraCommitment").Commitment(a)
						}
					}
					b.sign()
				}
				b.assemble()
			}
			raw := b.bytes()
			if rapid.IntRange(0, 2).Draw(t, "requestRespelled") == 0 {
				// the same request in another spelling (insignificant white space, escapes, number forms); one byte slice serves
				// every look-up below, as it does for a caller that walks a chain
				raw = []byte(spell(t, b.Req, 1))
			}
			rawBefore := string(raw)
			defer func(kind string) {
				if string(raw) != rawBefore {
					t.Fatalf("C04 the look-ups changed the bytes of the %s request they were given\n before %s\n after  %s", kind, rawBefore, raw)
				}
			}(kind)
			if _, err := stack.Parser.Parse("did:sidetree", raw); err != nil {
				t.Fatalf("C04 harness: chain %s refused: %v\n%s", kind, err, raw)
			}
			// ... nor on how close the request comes to the size limits: a request of exactly the maximum operation size is a
			// request like any other
			// the reveal value of a chain operation is the whole multihash of its key: a digest shortened together with its
			// length field is not accepted in its place
			{
				short := b.clone()
				d := refDigest(recAlg, []byte(refJCS(b.SignKey.JWKValue())))
				if kind == "update" {
					d = refDigest(updAlg, []byte(refJCS(b.SignKey.JWKValue())))
				}
				alg := recAlg
				if kind == "update" {
					alg = updAlg
				}
				short.Req["revealValue"] = b64(refMultihashBytes(alg, d[:rapid.SampledFrom([]int{0, 1, 16, len(d) - 1}).Draw(t, "shortReveal")]))
				if _, err := stack.Parser.Parse("did:sidetree", short.bytes()); err == nil {
					t.Fatalf("C04 chain %s with a shortened reveal value %v accepted", kind, short.Req["revealValue"])
				}
				// ... nor is the (well-formed) reveal value of another key: no view of the request - submission, batch, the two
				// chain look-ups - hands out a reveal value that is not the hash of the key the request is signed with
				foreign := b.clone()
				foreign.Req["revealValue"] = otherKey(t, b.SignKey).Reveal(alg)
				for _, cand := range []*opBuild{short, foreign} {
					raw := cand.bytes()
					if _, err := stack.Parser.Parse("did:sidetree", raw); err == nil {
						t.Fatalf("C04 chain %s whose reveal value %v is not the hash of its key accepted at submission", kind, cand.Req["revealValue"])
					}
					if _, err := stack.Parser.ParseOperation("did:sidetree", raw, true); err == nil {
						t.Fatalf("C04 chain %s whose reveal value %v is not the hash of its key accepted in batch mode", kind, cand.Req["revealValue"])
					}
					if rv, err := linker.Parser.GetRevealValue(raw); err == nil {
						t.Fatalf("C04 GetRevealValue hands out %q for a %s whose key does not hash to it", rv, kind)
					}
					if c, err := linker.Parser.GetCommitment(raw); err == nil {
						t.Fatalf("C04 GetCommitment hands out %q for a %s whose reveal value is not the hash of its key", c, kind)
					}
				}
			}
			lk := linker
			if rapid.IntRange(0, 2).Draw(t, "exactSizeLinker") == 0 {
				tight := linkCfg
				tight.MaxOperationSize = uint(len(raw))
				lk = newStack(tight, operationparser.WithAnchorTimeValidator(&recordingTimeValidator{err: operationparser.ErrOperationExpired}),
					operationparser.WithAnchorOriginValidator(rejectingOriginValidator{}))
			}
			rv, err := lk.Parser.GetRevealValue(raw)
			if err != nil {
				t.Fatalf("C04 GetRevealValue(%s): %v", kind, err)
			}
			if rv != b.Reveal {
				t.Fatalf("C04 parser reports reveal value %q, request carries %q", rv, b.Reveal)
			}
			derived, err := commitment.GetCommitmentFromRevealValue(rv)
			if err != nil {
				t.Fatalf("C04 GetCommitmentFromRevealValue: %v", err)
			}
			want := recCommit
			if kind == "update" {
				want = updCommit
			}
			if derived != want {
				t.Fatalf("C04 chain link broken at step %d (%s after %v): reveal value maps to %q, predecessor committed to %q", s, kind, kinds, derived, want)
			}
			next, err := lk.Parser.GetCommitment(raw)
			if err != nil {
				t.Fatalf("C04 GetCommitment(%s): %v", kind, err)
			}
			switch kind {
			case "update":
				if next != b.NextUpdate.Commitment(a) {
					t.Fatalf("C04 GetCommitment(update) = %q, next update commitment is %q", next, b.NextUpdate.Commitment(a))
				}
				if prevKind == "update" {
					upupLinks++
				}
				upd, updCommit, updAlg = b.NextUpdate, next, a
			case "recover":
				if next != b.NextRecov.Commitment(a) {
					t.Fatalf("C04 GetCommitment(recover) = %q, next recovery commitment is %q", next, b.NextRecov.Commitment(a))
				}
				parsed, err := lk.Parser.ParseRecoverOperation(raw, true)
				if err != nil || parsed.Delta.UpdateCommitment != b.NextUpdate.Commitment(a) {
					t.Fatalf("C04 parsed recover reports update commitment %v (%v)", parsed, err)
				}
				recLinks++
				rec, recCommit, recAlg = b.NextRecov, next, a
				upd, updCommit, updAlg = b.NextUpdate, parsed.Delta.UpdateCommitment, a
			default:
				if next != "" {
					t.Fatalf("C04 GetCommitment(deactivate) = %q, want no next commitment", next)
				}
			}
			kinds = append(kinds, kind)
			prevKind = kind
		}
		nontrivial := upupLinks >= 1 && recLinks >= 1
		st.Case(nontrivial, fmt.Sprint(kinds, p.MultihashAlgorithms, suffix), "chain", fmt.Sprintf("chain-algs-%v", p.MultihashAlgorithms), fmt.Sprintf("chain-len-%d", len(kinds)))
		st.Sample("chain", 3, func() interface{} {
			return map[string]interface{}{"operations": append([]string{"create"}, kinds...), "algs": p.MultihashAlgorithms}
		})
	})
}
