package harness

// C18 (part) - the transformation info the resolution result is built from. docutil's two helpers assemble it for
// published documents (canonical / equivalent ids from the state's references) and for unpublished ones (long-form
// resolution). Oracle: the id algebra as documented in the helpers' comments, written out independently; the result of the
// published helper is then handed to the transformer and must come out in the metadata "as given".

import (
	"fmt"
	"strings"
	"testing"

	"github.com/trustbloc/sidetree-go/pkg/api/protocol"
	"github.com/trustbloc/sidetree-go/pkg/docutil"
	"github.com/trustbloc/sidetree-go/pkg/versions/1_0/doctransformer/didtransformer"
	"pgregory.net/rapid"
)

func TestC18_TransformationInfo(t *testing.T) {
	st := statsFor("C18")
	check(t, "C18", 1500, func(t *rapid.T) {
		ns := rapid.SampledFrom([]string{"did:sidetree", "did:ion", "did:orb:test"}).Draw(t, "namespace")
		suffix := "EiD" + genString(t, 8)
		word := func(l string) string {
			return rapid.SampledFrom([]string{"", "", "uAAA", "hl:abc", "interim", "domain.com", "ipfs:domain.com", "x"}).Draw(t, l)
		}
		if rapid.Bool().Draw(t, "published") {
			canonical := word("canonicalRef")
			var refs []string
			for i, n := 0, rapid.IntRange(0, 3).Draw(t, "nrefs"); i < n; i++ {
				refs = append(refs, rapid.SampledFrom([]string{"uAAA", "hl:abc", "https:example.com:uBBB", "ipfs:x"}).Draw(t, "ref"))
			}
			id := ns + ":" + suffix
			rm := &protocol.ResolutionModel{CanonicalReference: canonical, EquivalentReferences: refs, Doc: map[string]interface{}{}, VersionID: "v"}
			got := docutil.GetTransformationInfoForPublished(ns, id, suffix, rm)
			canonicalID := ns + ":" + suffix
			if canonical != "" {
				canonicalID = ns + ":" + canonical + ":" + suffix
			}
			equivalent := []interface{}{canonicalID}
			for _, r := range refs {
				equivalent = append(equivalent, ns+":"+r+":"+suffix)
			}
			want := map[string]interface{}{"id": id, "published": true, "canonicalId": canonicalID, "equivalentId": equivalent}
			rt, _ := jsonRoundTrip(got)
			if refJCS(rt) != refJCS(want) {
				t.Fatalf("C18 transformation info of a published document\n got  %s\n want %s", refJCS(rt), refJCS(want))
			}
			// ... and it reaches the resolution result as given
			res, err := didtransformer.New().TransformDocument(rm, got)
			if err != nil {
				t.Fatalf("C18 TransformDocument: %v", err)
			}
			md, _ := jsonRoundTrip(res.DocumentMetadata)
			m, _ := md.(map[string]interface{})
			if m["canonicalId"] != canonicalID || refJCS(m["equivalentId"]) != refJCS(equivalent) || res.Document.ID() != id {
				t.Fatalf("C18 metadata does not report the canonical / equivalent ids as given: %s (want %s, %s)", refJCS(md), canonicalID, refJCS(equivalent))
			}
			if method, _ := m["method"].(map[string]interface{}); method == nil || method["published"] != true {
				t.Fatalf("C18 metadata of a published document: %s", refJCS(md))
			}
			st.Case(canonical != "" || len(refs) > 0, fmt.Sprint("info-published|", ns, suffix, canonical, refs), "info-published", fmt.Sprintf("info-refs-%d", len(refs)))
			return
		}
		domain, label, jcs := word("domain"), word("label"), rapid.SampledFrom([]string{"", "eyJhIjoxfQ"}).Draw(t, "createRequest")
		got := docutil.GetTransformationInfoForUnpublished(ns, domain, label, suffix, jcs)
		id := ns + ":" + suffix
		if label != "" {
			id = ns + ":" + label + ":" + suffix
		}
		var equivalent []interface{}
		if jcs != "" {
			equivalent = append(equivalent, id) // the short form of a long-form DID
		}
		if label != "" && domain != "" {
			hint := id
			if !strings.Contains(label, domain) {
				hint = ns + ":" + domain + ":" + label + ":" + suffix
			}
			equivalent = append(equivalent, hint)
		}
		want := map[string]interface{}{"published": false, "id": id}
		if jcs != "" {
			want["id"] = id + ":" + jcs
		}
		if len(equivalent) > 0 {
			want["equivalentId"] = equivalent
		}
		rt, _ := jsonRoundTrip(got)
		if refJCS(rt) != refJCS(want) {
			t.Fatalf("C18 transformation info of an unpublished document (domain %q, label %q)\n got  %s\n want %s", domain, label, refJCS(rt), refJCS(want))
		}
		st.Case(label != "" || jcs != "", fmt.Sprint("info-unpublished|", ns, suffix, domain, label, jcs), "info-unpublished")
	})
}
