package harness

// C20 (part) - the first calls on a component. Whatever a constructor leaves to be set up on first use is set up while the
// component may already be shared: several goroutines are released at the same instant (a spinning barrier, not a channel,
// so that they really start within the same few hundred nanoseconds) and each makes the first call it ever makes on a
// component that was constructed a moment ago and never used. Many fresh components per case, since the window of a lazy
// set-up is narrow. Oracle: the result of the same call on a component that has been in use for long (sequential reference).

import (
	"fmt"
	"runtime"
	"sync"
	"sync/atomic"
	"testing"

	"pgregory.net/rapid"

	"github.com/trustbloc/sidetree-go/pkg/api/protocol"
	longform "github.com/trustbloc/sidetree-go/pkg/vdr/sidetreelongform"
	"github.com/trustbloc/sidetree-go/pkg/vdr/sidetreelongform/dochandler"
	"github.com/trustbloc/sidetree-go/pkg/vdr/sidetreelongform/dochandler/protocol/verprovider"
	"github.com/trustbloc/sidetree-go/pkg/vdr/sidetreelongform/dochandler/protocolversion/clientregistry"
	vcommon "github.com/trustbloc/sidetree-go/pkg/vdr/sidetreelongform/dochandler/protocolversion/versions/common"
	"github.com/trustbloc/sidetree-go/pkg/versions/1_0/doctransformer/didtransformer"
)

func TestC20_FirstCalls(t *testing.T) {
	st := statsFor("C20")
	defer runtime.GOMAXPROCS(runtime.GOMAXPROCS(0))
	p := wideProtocol()
	check(t, "C20", 40, func(t *rapid.T) {
		procs := rapid.SampledFrom([]int{2, 4, 16}).Draw(t, "gomaxprocs")
		workers := rapid.SampledFrom([]int{2, 3, 4, 8}).Draw(t, "goroutines")
		what := rapid.SampledFrom([]string{"client-registry", "client-registry", "handler", "vdr", "stack", "transformer", "version-provider"}).Draw(t, "component")
		cr := newCreate(18, genKey(t, "rec"), pool()[ktP256][2], []interface{}{map[string]interface{}{"action": "add-also-known-as", "uris": []interface{}{"https://first.example/" + genString(t, 4)}}}, nil, "")
		raw := cr.bytes()
		did := "did:ion:" + cr.suffixFor(18) + ":" + b64(raw)
		// fresh(): a new component; the returned function is the call every goroutine makes on it first
		var fresh func() func() string
		rounds := 12
		switch what {
		case "client-registry":
			rounds = 150
			fresh = func() func() string {
				reg := clientregistry.New()
				return func() string {
					v, err := reg.CreateClientVersion("1.0", &vcommon.ProtocolConfig{})
					if err != nil {
						return "ERR:" + err.Error()
					}
					return v.Version()
				}
			}
		case "handler":
			fresh = func() func() string {
				h, err := dochandler.New("did:ion")
				if err != nil {
					t.Fatalf("harness: %v", err)
				}
				return func() string { return digest(h.ResolveDocument(did)) }
			}
		case "vdr":
			fresh = func() func() string {
				v, err := longform.New()
				if err != nil {
					t.Fatalf("harness: %v", err)
				}
				return func() string {
					r, err := v.Read(did)
					if err != nil {
						return "ERR:" + err.Error()
					}
					b, err := r.DIDDocument.JSONBytes()
					return string(b) + fmt.Sprint(err)
				}
			}
		case "stack":
			fresh = func() func() string {
				fresh := newStack(p)
				return func() string {
					op, err := fresh.Parser.Parse("did:sidetree", raw)
					if err != nil {
						return "ERR:" + err.Error()
					}
					return rmDigest(fresh.Applier.Apply(anchoredBytes("create", raw, op.UniqueSuffix, anchorMeta{Time: 2, Canonical: "c"}), &protocol.ResolutionModel{}))
				}
			}
		case "transformer":
			rm := &protocol.ResolutionModel{Doc: libDoc(map[string]interface{}{"publicKey": genKeyList(t, 1, 2, false)}), UpdateCommitment: "u", RecoveryCommitment: "r", VersionID: "v"}
			info := map[string]interface{}{"id": "did:ion:abc", "published": true}
			fresh = func() func() string {
				tr := didtransformer.New(didtransformer.WithIncludePublishedOperations(true), didtransformer.WithMethodContext([]string{"https://m.example"}))
				return func() string { return digest(tr.TransformDocument(rm, info)) }
			}
		default:
			versions := []protocol.Version{&vcommon.ProtocolVersion{VersionStr: "a", P: protocol.Protocol{GenesisTime: 20}}, &vcommon.ProtocolVersion{VersionStr: "b", P: protocol.Protocol{GenesisTime: 0}},
				&vcommon.ProtocolVersion{VersionStr: "c", P: protocol.Protocol{GenesisTime: 10}}}
			fresh = func() func() string {
				vp, err := verprovider.New(append([]protocol.Version{}, versions...))
				if err != nil {
					t.Fatalf("harness: %v", err)
				}
				return func() string {
					cur, err := vp.Current()
					if err != nil {
						return "ERR:" + err.Error()
					}
					at, err := vp.Get(15)
					if err != nil {
						return "ERR:" + err.Error()
					}
					return cur.Version() + "/" + at.Version()
				}
			}
		}
		// reference: a component that is used twice before its answer is taken
		ref := fresh()
		_ = ref()
		want := ref()
		runtime.GOMAXPROCS(procs)
		for r := 0; r < rounds; r++ {
			call := fresh()
			got := make([]string, workers)
			var ready, wg sync.WaitGroup
			var released int32
			ready.Add(workers)
			for w := 0; w < workers; w++ {
				wg.Add(1)
				go func(w int) {
					defer wg.Done()
					ready.Done()
					for atomic.LoadInt32(&released) == 0 {
						if procs <= workers {
							runtime.Gosched()
						}
					}
					got[w] = call()
				}(w)
			}
			ready.Wait()
			atomic.StoreInt32(&released, 1)
			awaitWorkers(t, &wg, "C20 first calls on a fresh "+what)
			for w := range got {
				if got[w] != want {
					t.Fatalf("C20 the first call of goroutine %d on a freshly constructed %s (round %d, GOMAXPROCS=%d, %d goroutines starting together) returned another result than a call on one in use\n first call %s\n in use     %s",
						w, what, r, procs, workers, clip(got[w], 1500), clip(want, 1500))
				}
			}
		}
		st.Case(true, fmt.Sprint("first-calls|", what, procs, workers, did), "first-calls-"+what, fmt.Sprintf("goroutines-%d", workers))
	})
}
