package harness

// Generators for I-JSON value trees and for surface spellings of a value.

import (
	"fmt"
	"math"
	"math/big"
	"math/rand"
	"sort"
	"strconv"
	"strings"
	"unicode/utf16"

	"pgregory.net/rapid"
)

// ---- strings ----

var runeClasses = []struct {
	name   string
	lo, hi rune
	weight int
}{
	{"ctrl", 0x00, 0x1f, 3},
	{"ascii", 0x20, 0x7e, 8},
	{"del", 0x7f, 0x7f, 1},
	{"latin1", 0x80, 0xff, 1},
	{"bmp-low", 0x100, 0xd7ff, 2},
	{"bmp-high", 0xe000, 0xffff, 3}, // sorts after surrogates in UTF-16 but before astral in code points
	{"astral", 0x10000, 0x10ffff, 3},
	{"linesep", 0x2028, 0x2029, 1},
	{"combining", 0x300, 0x36f, 1},
}

var specialRunes = []rune{'"', '\\', '/', '\b', '\f', '\n', '\r', '\t', 0, 0x1f, 0x7f, 0xfffd, 0xffff, 0xfffe, 0xe000, 0xd7ff, 0x10000, 0x10ffff, 'é', '€'}

func genRune(t *rapid.T) rune {
	if rapid.IntRange(0, 9).Draw(t, "runeKind") < 3 {
		return rapid.SampledFrom(specialRunes).Draw(t, "special")
	}
	total := 0
	for _, c := range runeClasses {
		total += c.weight
	}
	w := rapid.IntRange(0, total-1).Draw(t, "class")
	for _, c := range runeClasses {
		if w < c.weight {
			return rune(rapid.Int32Range(int32(c.lo), int32(c.hi)).Draw(t, "rune"))
		}
		w -= c.weight
	}
	return 'x'
}

// trickyStrings: texts that look like escape sequences, HTML-sensitive characters (Go's encoder writes them as \u003c ...),
// format verbs, separators of other syntaxes
var trickyStrings = []string{`\u0026`, `\u003c`, `\\u003e`, `<>&`, `</script>&amp;`, `\n`, `\`, `"q"`, "\u2028\u2029", "%s%d%v", "{{.}}", "a\\", `\"`, `\u`, `\ud800`, "&lt;", "\\\\u0000"}

func genString(t *rapid.T, maxLen int) string {
	if rapid.IntRange(0, 11).Draw(t, "trickyString") == 0 {
		return rapid.SampledFrom(trickyStrings).Draw(t, "tricky")
	}
	n := rapid.IntRange(0, maxLen).Draw(t, "strlen")
	var sb strings.Builder
	for i := 0; i < n; i++ {
		sb.WriteRune(genRune(t))
	}
	return sb.String()
}

// ---- numbers ----

func ulpUp(f float64) float64   { return math.Nextafter(f, math.Inf(1)) }
func ulpDown(f float64) float64 { return math.Nextafter(f, math.Inf(-1)) }

var boundaryNumbers = []float64{
	0, math.Copysign(0, -1), 1, -1, 0.5, 1e21, ulpDown(1e21), ulpUp(1e21), 1e20, 1e-6, ulpDown(1e-6), ulpUp(1e-6), 1e-7, ulpUp(1e-7),
	9007199254740991, 9007199254740992, 9007199254740993, 9007199254740994, -9007199254740992,
	math.SmallestNonzeroFloat64, ulpUp(math.SmallestNonzeroFloat64), 2.2250738585072014e-308, 2.225073858507201e-308,
	math.MaxFloat64, ulpDown(math.MaxFloat64), -math.MaxFloat64,
	123456789012345680000, 1234567890123456800, 999999999999999900000, 999999999999999868928, 295147905179352830000,
	1e15, 1.2e15, 1e12, 123456789012, 100000000000, 4.5, 0.000001, 0.002, 333333333.3333333, 1e23, 1.5e300, 5e-324,
	1424953923781206.2, 0.1, 0.3, 2e-3, 1e+30, 4.50, 4503599627370496.5, 9.999999999999999e22, 1e22,
	98765432109876540000, 12345678901234567000, 10000000000000000000000,
}

// genNumber returns a finite double and the family it came from.
func genNumber(t *rapid.T) (float64, string) {
	switch rapid.IntRange(0, 9).Draw(t, "numKind") {
	case 0, 1:
		f := rapid.SampledFrom(boundaryNumbers).Draw(t, "boundary")
		if rapid.Bool().Draw(t, "neg") {
			f = -f
		}
		return f, "num-boundary"
	case 2:
		// integers with >= 12 digits and trailing zeros (exercise the 'f' path patch-up)
		mant := rapid.Int64Range(1, 99999999).Draw(t, "mant")
		exp := rapid.IntRange(4, 20).Draw(t, "exp")
		f, _ := strconv.ParseFloat(fmt.Sprintf("%de%d", mant, exp), 64)
		return f, "num-bigint"
	case 3:
		// near the notation thresholds
		base := rapid.SampledFrom([]float64{1e21, 1e-6, 1e-7, 1e20, 1e22}).Draw(t, "thr")
		steps := rapid.IntRange(-4, 4).Draw(t, "steps")
		f := base
		for i := 0; i < steps; i++ {
			f = ulpUp(f)
		}
		for i := 0; i > steps; i-- {
			f = ulpDown(f)
		}
		return f, "num-threshold"
	case 4:
		return float64(rapid.Int64Range(-1000000, 1000000).Draw(t, "small")), "num-smallint"
	case 5:
		return float64(rapid.Int64().Draw(t, "i64")), "num-int64"
	case 6:
		m := rapid.Int64Range(-99999, 99999).Draw(t, "dm")
		e := rapid.IntRange(-30, 30).Draw(t, "de")
		f, _ := strconv.ParseFloat(fmt.Sprintf("%de%d", m, e), 64)
		return f, "num-decimal"
	default:
		for {
			bits := rapid.Uint64().Draw(t, "bits")
			f := math.Float64frombits(bits)
			if !math.IsNaN(f) && !math.IsInf(f, 0) {
				return f, "num-bits"
			}
			// make it finite by clearing one exponent bit (still inside the generator: no rejection loop)
			f = math.Float64frombits(bits &^ (1 << 62))
			return f, "num-bits"
		}
	}
}

// ---- value trees ----

type valueInfo struct {
	labels map[string]bool
}

func (vi *valueInfo) add(l string) {
	if vi.labels == nil {
		vi.labels = map[string]bool{}
	}
	vi.labels[l] = true
}

func genValueTree(t *rapid.T, depth, maxDepth, maxWidth int, vi *valueInfo) interface{} {
	kind := rapid.IntRange(0, 9).Draw(t, "kind")
	if depth >= maxDepth && kind >= 7 {
		kind = kind % 7
	}
	switch kind {
	case 0:
		return nil
	case 1:
		return rapid.Bool().Draw(t, "b")
	case 2, 3:
		f, fam := genNumber(t)
		vi.add(fam)
		return f
	case 4, 5, 6:
		s := genString(t, 6)
		noteString(s, vi)
		return s
	case 7:
		n := rapid.IntRange(0, maxWidth).Draw(t, "alen")
		arr := make([]interface{}, 0, n)
		for i := 0; i < n; i++ {
			arr = append(arr, genValueTree(t, depth+1, maxDepth, maxWidth, vi))
		}
		return arr
	default:
		return genObject(t, depth, maxDepth, maxWidth, vi)
	}
}

func noteString(s string, vi *valueInfo) {
	for _, r := range s {
		switch {
		case r < 0x20:
			vi.add("str-ctrl")
		case r >= 0x10000:
			vi.add("str-astral")
		case r >= 0xe000:
			vi.add("str-bmp-high")
		case r == '"' || r == '\\':
			vi.add("str-quote")
		}
	}
}

func genObject(t *rapid.T, depth, maxDepth, maxWidth int, vi *valueInfo) map[string]interface{} {
	n := rapid.IntRange(0, maxWidth).Draw(t, "olen")
	obj := map[string]interface{}{}
	hostileNames := rapid.IntRange(0, 3).Draw(t, "hostileNames") == 0
	for i := 0; i < n; i++ {
		k := genString(t, 4)
		if hostileNames {
			// names whose UTF-16 code-unit order differs from their code-point / UTF-8 byte order, shared prefixes, near-duplicates
			k = rapid.SampledFrom([]string{"\ue000", "\U00010000", "\uffff", "\ud7ff", "a\U0001f600", "a\uffff", "a\ue000", "a", "", "aa", "a\u0000", "\ufb33", "\U0001f600",
				"\U0010ffff", "\uff61", "A", "\u00e9", "e\u0301", "\u20ac", "1", "10", "2", "\r", "\n", "\"", "\\"}).Draw(t, "hostileName")
		}
		noteString(k, vi)
		if _, dup := obj[k]; dup {
			continue
		}
		obj[k] = genValueTree(t, depth+1, maxDepth, maxWidth, vi)
	}
	// does UTF-16 order differ from code-point (UTF-8 byte) order for some pair of names?
	keys := make([]string, 0, len(obj))
	for k := range obj {
		keys = append(keys, k)
	}
	a := append([]string(nil), keys...)
	b := append([]string(nil), keys...)
	sort.Strings(a)
	sort.Slice(b, func(i, j int) bool { return utf16Less(b[i], b[j]) })
	for i := range a {
		if a[i] != b[i] {
			vi.add("utf16-order-differs")
			break
		}
	}
	if len(keys) >= 2 {
		vi.add("obj-multi")
	}
	return obj
}

// genTopLevel returns an object or array (the canonicalizer accepts only those at top level).
func genTopLevel(t *rapid.T, maxDepth, maxWidth int, vi *valueInfo) interface{} {
	if rapid.IntRange(0, 3).Draw(t, "top") == 0 {
		n := rapid.IntRange(0, maxWidth).Draw(t, "alen")
		arr := make([]interface{}, 0, n)
		for i := 0; i < n; i++ {
			arr = append(arr, genValueTree(t, 1, maxDepth, maxWidth, vi))
		}
		return arr
	}
	return genObject(t, 0, maxDepth, maxWidth, vi)
}

// ---- spellings ----

func spellWS(t *rapid.T, sb *strings.Builder, style int) {
	if style == 0 {
		return
	}
	n := rapid.IntRange(0, 2).Draw(t, "ws")
	for i := 0; i < n; i++ {
		sb.WriteByte(" \t\n\r"[rapid.IntRange(0, 3).Draw(t, "wsc")])
	}
}

func spellString(t *rapid.T, sb *strings.Builder, s string, style int) {
	sb.WriteByte('"')
	for _, r := range s {
		mustEscape := r < 0x20 || r == '"' || r == '\\'
		choice := 0
		if style == 1 {
			choice = rapid.IntRange(0, 4).Draw(t, "esc")
		}
		short := map[rune]string{'"': `\"`, '\\': `\\`, '\b': `\b`, '\f': `\f`, '\n': `\n`, '\r': `\r`, '\t': `\t`, '/': `\/`}
		switch {
		case choice == 1 || (mustEscape && choice == 0 && short[r] == ""):
			writeUEscape(sb, r, false)
		case choice == 2:
			writeUEscape(sb, r, true)
		case (choice == 3 || mustEscape) && short[r] != "":
			sb.WriteString(short[r])
		case mustEscape:
			writeUEscape(sb, r, false)
		default:
			sb.WriteRune(r)
		}
	}
	sb.WriteByte('"')
}

func writeUEscape(sb *strings.Builder, r rune, upper bool) {
	f := `\u%04x`
	if upper {
		f = `\u%04X`
	}
	if r >= 0x10000 {
		r1, r2 := utf16.EncodeRune(r)
		sb.WriteString(fmt.Sprintf(f, r1))
		sb.WriteString(fmt.Sprintf(f, r2))
		return
	}
	sb.WriteString(fmt.Sprintf(f, r))
}

// spellNumber returns a JSON number literal that parses to exactly f.
func spellNumber(t *rapid.T, f float64, style int) string {
	if style != 1 {
		return strconv.FormatFloat(f, 'g', -1, 64)
	}
	if f == 0 {
		return rapid.SampledFrom([]string{"0", "-0", "0.0", "0e0", "-0.0e-3", "0E+5", "0.000"}).Draw(t, "zero")
	}
	var s string
	if a := math.Abs(f); a >= 9007199254740992 && a < 1e21 && f == math.Trunc(f) && rapid.IntRange(0, 2).Draw(t, "inexactInt") == 0 {
		// an integer literal that is not itself a double but rounds to f (e.g. 9007199254740993 for 2^53)
		exact, _ := new(big.Float).SetFloat64(f).Int(nil)
		ulp := new(big.Float).SetFloat64(math.Abs(ulpUp(a) - a))
		half, _ := new(big.Float).Quo(ulp, big.NewFloat(2)).Int(nil)
		if half.Sign() > 0 {
			off := new(big.Int).Rand(rand.New(rand.NewSource(int64(rapid.Uint32().Draw(t, "intOff")))), half)
			if rapid.Bool().Draw(t, "intOffNeg") {
				off.Neg(off)
			}
			lit := new(big.Int).Add(exact, off).String()
			if back, err := strconv.ParseFloat(lit, 64); err == nil && back == f {
				return lit
			}
		}
	}
	switch rapid.IntRange(0, 8).Draw(t, "numSpell") {
	case 0:
		s = strconv.FormatFloat(f, 'e', -1, 64)
	case 1:
		s = strconv.FormatFloat(f, 'f', -1, 64)
	case 2:
		s = strconv.FormatFloat(f, 'g', 17, 64)
	case 3:
		s = strconv.FormatFloat(f, 'e', 20, 64)
	case 4:
		s = strings.ToUpper(strconv.FormatFloat(f, 'e', -1, 64))
	case 5:
		// exponent with leading zeros and explicit sign
		s = strconv.FormatFloat(f, 'e', -1, 64)
		m, e, _ := strings.Cut(s, "e")
		s = m + "e" + e[:1] + "00" + e[1:]
	case 6:
		// mantissa with trailing zeros
		s = strconv.FormatFloat(f, 'e', -1, 64)
		m, e, _ := strings.Cut(s, "e")
		if !strings.Contains(m, ".") {
			m += "."
		}
		s = m + "000e" + e
	case 7:
		s = strconv.FormatFloat(f, 'f', -1, 64)
		if !strings.Contains(s, ".") {
			s += ".0"
		} else {
			s += "00"
		}
	default:
		s = refES6(f)
	}
	s = strings.Replace(s, "e+", rapid.SampledFrom([]string{"e+", "e", "E+", "E"}).Draw(t, "eplus"), 1)
	if back, err := strconv.ParseFloat(s, 64); err != nil || back != f {
		return strconv.FormatFloat(f, 'g', -1, 64)
	}
	return s
}

// spellValue serializes a value tree with drawn member order, whitespace, escapes and number spellings.
// style 0 = plain compact (Go-like), style 1 = everything varied, style 2 = member order and whitespace only.
func spellValue(t *rapid.T, sb *strings.Builder, v interface{}, style int) {
	switch x := v.(type) {
	case nil:
		sb.WriteString("null")
	case bool:
		if x {
			sb.WriteString("true")
		} else {
			sb.WriteString("false")
		}
	case float64:
		sb.WriteString(spellNumber(t, x, style))
	case string:
		spellString(t, sb, x, style)
	case []interface{}:
		sb.WriteByte('[')
		spellWS(t, sb, style)
		for i, e := range x {
			if i > 0 {
				sb.WriteByte(',')
				spellWS(t, sb, style)
			}
			spellValue(t, sb, e, style)
			spellWS(t, sb, style)
		}
		sb.WriteByte(']')
	case map[string]interface{}:
		keys := make([]string, 0, len(x))
		for k := range x {
			keys = append(keys, k)
		}
		sort.Strings(keys)
		if len(keys) > 1 {
			keys = rapid.Permutation(keys).Draw(t, "order")
		}
		sb.WriteByte('{')
		spellWS(t, sb, style)
		for i, k := range keys {
			if i > 0 {
				sb.WriteByte(',')
				spellWS(t, sb, style)
			}
			spellString(t, sb, k, style)
			spellWS(t, sb, style)
			sb.WriteByte(':')
			spellWS(t, sb, style)
			spellValue(t, sb, x[k], style)
			spellWS(t, sb, style)
		}
		sb.WriteByte('}')
	default:
		panic(fmt.Sprintf("spellValue: %T", v))
	}
}

func spell(t *rapid.T, v interface{}, style int) string {
	var sb strings.Builder
	if style != 0 {
		spellWS(t, &sb, style)
	}
	spellValue(t, &sb, v, style)
	if style != 0 {
		spellWS(t, &sb, style)
	}
	return sb.String()
}

// ---- single-point modification of a value tree (for content-address checks) ----

// deepCopyValue copies a JSON value tree.
func deepCopyValue(v interface{}) interface{} {
	switch x := v.(type) {
	case []interface{}:
		out := make([]interface{}, len(x))
		for i, e := range x {
			out[i] = deepCopyValue(e)
		}
		return out
	case map[string]interface{}:
		out := make(map[string]interface{}, len(x))
		for k, e := range x {
			out[k] = deepCopyValue(e)
		}
		return out
	default:
		return v
	}
}

// mutateValue returns a copy of v differing in exactly one point (leaf changed, member added/removed/renamed,
// element added/removed). The result is guaranteed to denote a different JSON value.
func mutateValue(t *rapid.T, v interface{}) (interface{}, string) {
	c := deepCopyValue(v)
	// collect paths to containers and leaves
	type slot struct {
		parent interface{}
		key    string
		idx    int
	}
	var slots []slot
	var walk func(p interface{})
	walk = func(p interface{}) {
		switch x := p.(type) {
		case []interface{}:
			for i, e := range x {
				slots = append(slots, slot{parent: x, idx: i})
				walk(e)
			}
		case map[string]interface{}:
			keys := make([]string, 0, len(x))
			for k := range x {
				keys = append(keys, k)
			}
			sort.Strings(keys)
			for _, k := range keys {
				slots = append(slots, slot{parent: x, key: k, idx: -1})
				walk(x[k])
			}
		}
	}
	walk(c)
	if len(slots) == 0 {
		// empty container: add something
		switch x := c.(type) {
		case []interface{}:
			return append(x, "added"), "add-element"
		case map[string]interface{}:
			x["added"] = true
			return x, "add-member"
		}
	}
	sl := slots[rapid.IntRange(0, len(slots)-1).Draw(t, "slot")]
	get := func() interface{} {
		if sl.idx >= 0 {
			return sl.parent.([]interface{})[sl.idx]
		}
		return sl.parent.(map[string]interface{})[sl.key]
	}
	set := func(nv interface{}) {
		if sl.idx >= 0 {
			sl.parent.([]interface{})[sl.idx] = nv
		} else {
			sl.parent.(map[string]interface{})[sl.key] = nv
		}
	}
	old := get()
	switch x := old.(type) {
	case nil:
		set(false)
		return c, "null->false"
	case bool:
		set(!x)
		return c, "flip-bool"
	case float64:
		nf := ulpUp(x)
		if math.IsInf(nf, 0) {
			nf = ulpDown(x)
		}
		if x == 0 {
			nf = 1
		}
		set(nf)
		return c, "num-ulp"
	case string:
		switch rapid.IntRange(0, 2).Draw(t, "smut") {
		case 0:
			set(x + "x")
		case 1:
			if len(x) > 0 {
				r := []rune(x)
				r[0] ^= 1
				if r[0] >= 0xd800 && r[0] <= 0xdfff {
					r[0] = 'q'
				}
				if string(r) != x {
					set(string(r))
				} else {
					set(x + "y")
				}
			} else {
				set(" ")
			}
		default:
			set(strings.ToUpper(x) + "\u0000")
		}
		return c, "string-change"
	case []interface{}:
		set(append(append([]interface{}{}, x...), nil))
		return c, "array-append"
	case map[string]interface{}:
		nm := map[string]interface{}{}
		for k, e := range x {
			nm[k] = e
		}
		k := "zz"
		for {
			if _, ok := nm[k]; !ok {
				break
			}
			k += "z"
		}
		nm[k] = nil
		set(nm)
		return c, "object-add-member"
	}
	set("changed")
	return c, "replace"
}

// editString returns a string different from s, produced by one small edit (the kinds of change a re-encoding, a copy/paste
// slip or a deliberate respelling produce). Used where exactly one string is right and every other one must be refused.
func editString(t *rapid.T, s string) (string, string) {
	const alpha = "ABCDEFGHIJKLMNOPQRSTUVWXYZabcdefghijklmnopqrstuvwxyz0123456789-_"
	r := []rune(s)
	pos := func(n int) int {
		if n <= 0 {
			return 0
		}
		switch rapid.IntRange(0, 2).Draw(t, "editWhere") {
		case 0:
			return 0
		case 1:
			return n - 1
		}
		return rapid.IntRange(0, n-1).Draw(t, "editPos")
	}
	for try := 0; try < 8; try++ {
		kind := rapid.SampledFrom([]string{"tail-respelled", "delete", "insert", "replace", "case", "truncate", "append", "swap", "std-alphabet", "padding", "space", "doubled"}).Draw(t, "editKind")
		out := s
		switch kind {
		case "tail-respelled": // other base64url spelling of the same bytes (spare bits of the last character)
			if len(s)%4 != 0 && len(s) > 0 {
				if i := strings.IndexByte(alpha, s[len(s)-1]); i >= 0 {
					spare := 2
					if len(s)%4 == 2 {
						spare = 4
					}
					out = s[:len(s)-1] + string(alpha[i^rapid.IntRange(1, 1<<spare-1).Draw(t, "spareBits")])
				}
			}
		case "delete":
			if len(r) > 0 {
				i := pos(len(r))
				out = string(r[:i]) + string(r[i+1:])
			}
		case "insert":
			i := pos(len(r) + 1)
			out = string(r[:i]) + string(alpha[rapid.IntRange(0, 63).Draw(t, "editChar")]) + string(r[i:])
		case "replace":
			if len(r) > 0 {
				i := pos(len(r))
				out = string(r[:i]) + string(alpha[rapid.IntRange(0, 63).Draw(t, "editChar")]) + string(r[i+1:])
			}
		case "case":
			if len(r) > 0 {
				i := pos(len(r))
				c := string(r[i])
				if strings.ToUpper(c) != c {
					c = strings.ToUpper(c)
				} else {
					c = strings.ToLower(c)
				}
				out = string(r[:i]) + c + string(r[i+1:])
			}
		case "truncate":
			if len(r) > 0 {
				out = string(r[:rapid.IntRange(0, len(r)-1).Draw(t, "editLen")])
			}
		case "append":
			out = s + rapid.SampledFrom([]string{"A", "AA", "AAAA", "=", "\n", ".", s}).Draw(t, "editTail")
		case "swap":
			if len(r) > 1 {
				i := pos(len(r) - 1)
				r2 := append([]rune{}, r...)
				r2[i], r2[i+1] = r2[i+1], r2[i]
				out = string(r2)
			}
		case "std-alphabet":
			out = strings.NewReplacer("-", "+", "_", "/").Replace(s)
		case "padding":
			out = s + strings.Repeat("=", (4-len(s)%4)%4)
		case "space":
			out = rapid.SampledFrom([]string{" " + s, s + " ", s + "\n", "\t" + s}).Draw(t, "editSpace")
		case "doubled":
			out = s + s
		}
		if out != s {
			return out, kind
		}
	}
	return s + "A", "append"
}
