package harness

// Shrunk failures promoted to plain regression cases (no generator involved): the seconds-long replay tier.
// Each case names the finding it came from (see /verif/known_findings.json and DESIGN.md section 6).

import (
	"encoding/json"
	"os"
	"testing"

	"github.com/trustbloc/sidetree-go/pkg/hashing"
	"github.com/trustbloc/sidetree-go/pkg/jws"
	"github.com/trustbloc/sidetree-go/pkg/jwsutil"
	"github.com/trustbloc/sidetree-go/pkg/patch"
	"github.com/trustbloc/sidetree-go/pkg/versions/1_0/doccomposer"
)

func mustJSON(s string) interface{} {
	var v interface{}
	if err := json.Unmarshal([]byte(s), &v); err != nil {
		panic(err)
	}
	return v
}

func mustObj(s string) map[string]interface{} { return mustJSON(s).(map[string]interface{}) }

// applyRef applies patches with the library and with the reference and returns both canonical results.
func applyBoth(t *testing.T, doc string, patches string) (got string, gotErr error, want string, wantErr error) {
	t.Helper()
	d := mustObj(doc)
	ps := mustJSON(patches).([]interface{})
	lps, err := libPatches(ps)
	if err != nil {
		t.Fatalf("parse patches: %v", err)
	}
	journal("ApplyPatches", []byte(refJCS(map[string]interface{}{"doc": d, "patches": ps})))
	res, gerr := doccomposer.New().ApplyPatches(libDoc(d), lps)
	ref, rerr := refCompose(d, ps)
	if gerr == nil {
		got = docCanon(res)
	}
	if rerr == nil {
		want = refJCS(normalizeDoc(ref))
	}
	return got, gerr, want, rerr
}

func TestC10_Regress(t *testing.T) {
	st := statsFor("C10")
	cases := []struct{ name, doc, patches string }{
		{"F11b move into array index inserts", `{"alsoKnownAs":["https://example.com/a"],"name":{"y":"1"}}`,
			`[{"action":"ietf-json-patch","patches":[{"op":"move","from":"/name","path":"/alsoKnownAs/0"}]}]`},
		{"F11b copy into array index inserts", `{"arr":["e0",1],"x":"v"}`,
			`[{"action":"ietf-json-patch","patches":[{"op":"copy","from":"/x","path":"/arr/1"}]}]`},
		{"F11a copy array into itself", `{"alsoKnownAs":["did:example:123"]}`,
			`[{"action":"ietf-json-patch","patches":[{"op":"copy","from":"/alsoKnownAs","path":"/alsoKnownAs/0"}]}]`},
		{"F11a copy object into own child", `{"o":{"y":"1"}}`,
			`[{"action":"ietf-json-patch","patches":[{"op":"copy","from":"/o","path":"/o/y"}]}]`},
		{"F11a copy into own child through an alias", `{"o":{"y":"1"}}`,
			`[{"action":"ietf-json-patch","patches":[{"op":"copy","from":"/o","path":"/p"},{"op":"copy","from":"/p","path":"/o/z"}]}]`},
		{"F19 follow-up: the path of a move is evaluated after the value was removed (array elements shift)", `{"name":["e0",1,["a",2],{"in":"arr"}]}`,
			`[{"action":"ietf-json-patch","patches":[{"op":"move","from":"/name/0","path":"/name/2/name"}]}]`},
		{"F19 follow-up: move within an array to a later index", `{"sh":["x",["a"],{"k":"v"}]}`,
			`[{"action":"ietf-json-patch","patches":[{"op":"move","from":"/sh/0","path":"/sh/1/moved"},{"op":"move","from":"/sh/1/k","path":"/sh/2"}]}]`},
		{"F11c edit of a copy leaves the source alone", `{"o":{"y":"1"}}`,
			`[{"action":"ietf-json-patch","patches":[{"op":"copy","from":"/o","path":"/p"},{"op":"add","path":"/p/z","value":2}]}]`},
	}
	for _, c := range cases {
		got, gerr, want, werr := applyBoth(t, c.doc, c.patches)
		if werr != nil {
			t.Fatalf("harness: reference rejects regression case %s: %v", c.name, werr)
		}
		if gerr != nil || got != want {
			t.Errorf("C10 regress %q: got %s (%v) want %s", c.name, got, gerr, want)
		}
		st.Case(true, "regress:"+c.name, "regress")
	}
}

// F19 / F21: operations that RFC 6902 makes an error must fail (and the reference agrees that they are errors)
func TestC10_RegressInapplicable(t *testing.T) {
	st := statsFor("C10")
	doc := `{"arr":["a","b","c"],"name":"v","o":{"a":1}}`
	for _, ops := range []string{
		`[{"op":"remove","path":"/arr/-1"}]`, `[{"op":"copy","from":"/name","path":"/arr/-1"}]`, `[{"op":"add","path":"/arr/-2","value":"x"}]`,
		`[{"op":"remove","path":"/arr/01"}]`, `[{"op":"replace","path":"/arr/+1","value":"x"}]`, `[{"op":"add","path":"/arr/00","value":"x"}]`,
		`[{"op":"move","from":"/name","path":"/arr/-0"}]`,
		`[{"op":"test","path":"/o","value":{"a":1,"b":2}}]`, `[{"op":"remove","path":"/o/a"},{"op":"test","path":"/o","value":{"id":"k1"}}]`,
	} {
		got, gerr, _, werr := applyBoth(t, doc, `[{"action":"ietf-json-patch","patches":`+ops+`}]`)
		if werr == nil {
			t.Fatalf("harness: reference applies regression case %s", ops)
		}
		if gerr == nil {
			t.Errorf("C10 regress F19/F21: %s applied to %s gives %s, RFC 6902 makes it an error (%v)", ops, doc, got, werr)
		}
		st.Case(true, "regress:inapplicable:"+ops, "regress")
	}
}

// F18: 'test' of equal numbers in different spellings (the patch text matters here, so it is given literally)
func TestC10_RegressNumberSpelling(t *testing.T) {
	st := statsFor("C10")
	for _, text := range []string{
		`{"action":"ietf-json-patch","patches":[{"op":"add","path":"/num","value":0},{"op":"test","path":"/num","value":-0}]}`,
		`{"action":"ietf-json-patch","patches":[{"op":"add","path":"/num","value":-0.0},{"op":"test","path":"/num","value":0e5}]}`,
		`{"action":"ietf-json-patch","patches":[{"op":"add","path":"/num","value":1.0},{"op":"test","path":"/num","value":1e0},{"op":"test","path":"/num","value":10E-1}]}`,
	} {
		p, err := patch.FromBytes([]byte(text))
		if err != nil {
			t.Fatal(err)
		}
		if _, err := doccomposer.New().ApplyPatches(libDoc(map[string]interface{}{"x": "y"}), lpList(p)); err != nil {
			t.Errorf("C10 regress F18: %s: %v", text, err)
		}
		st.Case(true, "regress:F18:"+text, "regress")
	}
}

func TestC16_Regress(t *testing.T) {
	st := statsFor("C16")
	// F13: Ed25519 JWK with a 31-byte / 33-byte x
	for _, x := range []string{"MUHrmMwtkWnv6kdTFD1HM6vymQLt-HJsOqYtuGm7Ew", "MUHrmMwtkWnv6kdTFD1HM6vymQLt-HJsOqYtuGm7EzsA"} {
		j := &jws.JWK{Kty: "OKP", Crv: "Ed25519", X: x}
		if _, err := unmarshalJWK(j); err == nil {
			if _, err := jwsutil.GetED25519PublicKey(j); err == nil {
				t.Errorf("C16 regress F13: Ed25519 JWK with wrong-width x %q accepted", x)
			}
		}
		st.Case(true, "regress:F13:"+x, "regress")
	}
}

func TestC06_Regress(t *testing.T) {
	st := statsFor("C06")
	// F16: line breaks inside / around an encoded multihash
	for _, h := range []string{"\nEiBPU82hjCuqDANUu1-aPsvl7RKrTY4Ruoc8LxEWEgK5RQ", "EiBPU82hjCuqDANUu1-aPsvl7RKrTY4Ruoc8LxEWEgK5RQ\n", "EiBPU82hjCuqDANUu1-aPs\r\nvl7RKrTY4Ruoc8LxEWEgK5RQ"} {
		if c, err := hashing.GetMultihashCode(h); err == nil {
			t.Errorf("C06 regress F16: GetMultihashCode(%q) = %d, want an error", h, c)
		}
		if hashing.IsComputedUsingMultihashAlgorithms(h, []uint{18, 19}) {
			t.Errorf("C06 regress F16: %q accepted as computed with sha2-256", h)
		}
		st.Case(true, "regress:F16:"+h, "regress")
	}
}

func TestC15_Regress(t *testing.T) {
	st := statsFor("C15")
	// F17: compact JWS with a line break inside a segment
	k := pool()[ktEd25519][0]
	j := signCompact(k, map[string]interface{}{"alg": "EdDSA"}, []byte("payload"), 0)
	if _, err := jwsutil.VerifyJWS(j, k.LibJWK()); err != nil {
		t.Fatalf("harness: %v", err)
	}
	for _, pos := range []int{0, 5, len(j) / 2, len(j) - 3, len(j)} {
		for _, nl := range []string{"\n", "\r\n"} {
			bad := j[:pos] + nl + j[pos:]
			if _, err := jwsutil.VerifyJWS(bad, k.LibJWK()); err == nil {
				t.Errorf("C15 regress F17: JWS with a line break at %d verified", pos)
			}
			st.Case(true, "regress:F17:"+bad, "regress")
		}
	}
}

// TestReplayJournal re-executes the call that was in flight when a test process died (bin/check --replay).
func TestReplayJournal(t *testing.T) {
	p := os.Getenv("VERIF_REPLAY_JOURNAL")
	if p == "" {
		t.Skip("no journal to replay")
	}
	b, err := os.ReadFile(p)
	if err != nil {
		t.Fatal(err)
	}
	var j struct {
		Entry string `json:"entry"`
		Input string `json:"input"`
	}
	if err := json.Unmarshal(b, &j); err != nil {
		t.Fatal(err)
	}
	f, ok := entryPoints()[j.Entry]
	if !ok {
		t.Fatalf("unknown entry point %q", j.Entry)
	}
	t.Logf("replaying %s on %d bytes", j.Entry, len(j.Input))
	if perr := callNoPanic(func() { f([]byte(j.Input)) }); perr != nil {
		t.Fatalf("entry point %s panicked: %v", j.Entry, perr)
	}
}
