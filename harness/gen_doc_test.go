package harness

// Generators for internal documents, keys, services, URIs and the eight patch actions (as JSON value trees),
// plus the reference composer (refCompose) and a small RFC 6902 evaluator (refPatch6902).

import (
	"fmt"
	"net/url"
	"sort"
	"strconv"
	"strings"

	"github.com/btcsuite/btcutil/base58"
	"pgregory.net/rapid"
)

const (
	tBls       = "Bls12381G2Key2020"
	tJWK2020   = "JsonWebKey2020"
	tSecp2019  = "EcdsaSecp256k1VerificationKey2019"
	tX25519    = "X25519KeyAgreementKey2019"
	tEd2018    = "Ed25519VerificationKey2018"
	tEd2020    = "Ed25519VerificationKey2020"
	pAuth      = "authentication"
	pAssert    = "assertionMethod"
	pAgree     = "keyAgreement"
	pDelegate  = "capabilityDelegation"
	pInvoke    = "capabilityInvocation"
	maxIDLen   = 50
	maxTypeLen = 30
)

var docKeyTypes = []string{tBls, tJWK2020, tSecp2019, tX25519, tEd2018, tEd2020}
var allPurposes = []string{pAuth, pAssert, pAgree, pDelegate, pInvoke}

// purposeAllowed is the documented key type x purpose table: verification types for authentication / assertion /
// delegation / invocation, agreement types for keyAgreement.
func purposeAllowed(keyType, purpose string) bool {
	verification := map[string]bool{tBls: true, tJWK2020: true, tSecp2019: true, tEd2018: true, tEd2020: true}
	agreement := map[string]bool{tBls: true, tJWK2020: true, tSecp2019: true, tX25519: true}
	if purpose == pAgree {
		return agreement[keyType]
	}
	for _, p := range allPurposes {
		if p == purpose {
			return verification[keyType]
		}
	}
	return false
}

var smallIDs = []string{"k1", "k2", "k3", "a", "b", "key-1", "key_2", "s1", "s2", "K1"}

func genID(t *rapid.T, label string) string {
	switch rapid.IntRange(0, 9).Draw(t, label+"-kind") {
	case 0:
		return rapid.StringMatching(`[A-Za-z0-9_-]{1,50}`).Draw(t, label)
	case 1:
		return strings.Repeat("x", rapid.SampledFrom([]int{1, 49, 50}).Draw(t, label+"-len"))
	default:
		return rapid.SampledFrom(smallIDs).Draw(t, label)
	}
}

// docJWK returns a JWK object as it appears inside documents (y omitted for OKP keys).
func docJWK(k *Key) map[string]interface{} {
	v := k.JWKValue()
	delete(v, "nonce")
	if v["y"] == "" {
		delete(v, "y")
	}
	return v
}

// genDocKey draws a key entry valid per the documented constraints. consistent=true keeps key material matching the
// key type (needed when the document is later transformed).
func genDocKey(t *rapid.T, id string, consistent bool) map[string]interface{} {
	typ := rapid.SampledFrom(docKeyTypes).Draw(t, "keyType")
	key := map[string]interface{}{"id": id, "type": typ}
	// purposes: absent, or a non-empty subset of the purposes allowed for the type
	var allowed []string
	for _, p := range allPurposes {
		if purposeAllowed(typ, p) {
			allowed = append(allowed, p)
		}
	}
	if rapid.IntRange(0, 4).Draw(t, "purposesPresent") > 0 {
		n := rapid.IntRange(1, len(allowed)).Draw(t, "npurposes")
		perm := rapid.Permutation(allowed).Draw(t, "purposes")
		ps := make([]interface{}, 0, n)
		for _, p := range perm[:n] {
			ps = append(ps, p)
		}
		if len(ps) < 5 && rapid.IntRange(0, 5).Draw(t, "repeatPurpose") == 0 {
			// a repeated purpose is legal (the constraints bound the number and the values only)
			ps = append(ps, ps[rapid.IntRange(0, len(ps)-1).Draw(t, "repeated")])
		}
		key["purposes"] = ps
	}
	var mat *Key
	switch {
	case consistent && (typ == tEd2018 || typ == tEd2020):
		mat = genKeyOf(t, ktEd25519, "material")
	case consistent && typ == tSecp2019:
		mat = genKeyOf(t, ktSecp256k1, "material")
	case consistent && typ == tJWK2020:
		mat = genKey(t, "material")
	default:
		mat = genKey(t, "material")
	}
	useB58 := typ != tJWK2020 && rapid.IntRange(0, 2).Draw(t, "b58") == 0
	if (!consistent || typ == tJWK2020) && !useB58 && rapid.IntRange(0, 7).Draw(t, "rsaJwk") == 0 {
		// a complete RSA JWK is a well-formed JWK too
		key["publicKeyJwk"] = map[string]interface{}{"kty": "RSA", "n": "sXchDaQebHnPiGvyDOAT4saGEUetSyo9MKLOoWFsueri23bOdgWp4Dy1WlUzewbgBHod5pcM9H95GQRV3JDXboIRROSBigeC5yjU1hGzHHyXss8UDprecbAYxknTcQkhslANGRUZmdTOQ5qTRsLAt6BTYuyvVRdhS8exSZEy_c4gs_7svlJJQ4H9_NxsiIoLwAEk7-Q3UXERGYw_75IDrGA84-lA_-Ct4eTlXHBIY2EaV7t7LjJaynVJCpkv4LKjTTAumiGUIuQhrNhZLuF_RJLqHpM2kgWFLU7-VTdL1VbC2tejvcI2BlMkEpk1BzBZI0KQB0GaDWFLN-aEAw3vRw", "e": "AQAB"}
		return key
	}
	if useB58 {
		x, _ := mat.XY()
		key["publicKeyBase58"] = base58.Encode(x)
	} else {
		jwk := docJWK(mat)
		if rapid.IntRange(0, 3).Draw(t, "jwkExtras") == 0 {
			// further JWK members (RFC 7517) are legal and belong to the key material
			for _, name := range []string{"alg", "kid", "use", "key_ops", "ext"} {
				if rapid.Bool().Draw(t, "extra-"+name) {
					jwk[name] = map[string]interface{}{"alg": mat.Type.Alg(), "kid": id + "-kid", "use": "sig", "key_ops": []interface{}{"verify"}, "ext": true}[name]
				}
			}
		}
		key["publicKeyJwk"] = jwk
	}
	return key
}

var goodURIs = []string{"https://example.com/a", "http://hub.example.com/.identity/did:example:0123456789abcdef/", "did:example:123",
	"https://a.b/c?d=e#f", "/relative/path", "urn:uuid:6ba7b810-9dad-11d1-80b4-00c04fd430c8", "HTTP://Upper.example", "https://example.com/%7Euser"}

// akaURIs: also-known-as URIs, including spellings that are not fixed points of URL normalisation (the composer treats
// them as plain strings)
var akaURIs = []string{"HTTP://Upper.example", "http://Upper.example", "https://example.com/profile", "https://example.com/zo%C3%AB", "https://example.com/zo\u00eb", "https://example.com/profile#", "https://example.com/a", "did:example:123",
	"http://hub.example.com/.identity/did:example:0123456789abcdef/", "https://a.b/c?d=e#f", "/relative/path", "urn:uuid:6ba7b810-9dad-11d1-80b4-00c04fd430c8", "https://example.com/a b",
	// references without a scheme parse as URIs too
	"identityURI", "alias/1", "user@example.com", "#me", "?q=1",
	// path, query and fragment are case-sensitive: these are different URIs
	"https://example.com/users/Alice", "https://example.com/users/alice", "https://example.com/x?id=aB3", "https://example.com/x?id=Ab3"}

var badEndpointURIs = []string{"", "::bad", "example.com", "http://[::1", "%zz", "rel/path", "http://a b.com/"}
var badAkaURIs = []string{"::bad", "http://[::1", "%zz", "http://a\x7fb", ":"}

func genServiceEndpoint(t *rapid.T) interface{} {
	switch rapid.IntRange(0, 4).Draw(t, "endpointKind") {
	case 0, 1:
		return rapid.SampledFrom(goodURIs).Draw(t, "uri")
	case 2:
		n := rapid.IntRange(1, 3).Draw(t, "nuris")
		out := make([]interface{}, 0, n)
		for i := 0; i < n; i++ {
			out = append(out, rapid.SampledFrom(goodURIs).Draw(t, "uri"))
		}
		return out
	case 3:
		return []interface{}{rapid.SampledFrom(goodURIs).Draw(t, "uri"),
			map[string]interface{}{"uri": "https://x.example", "accept": []interface{}{"didcomm/v2"}}}
	default:
		ep := map[string]interface{}{"uri": rapid.SampledFrom(goodURIs).Draw(t, "uri"), "routingKeys": []interface{}{"did:example:r#k"}}
		if rapid.IntRange(0, 2).Draw(t, "endpointNames") == 0 {
			// member names are free here: names whose UTF-16 order differs from their code-point order, prefixes of one another,
			// names that need escaping
			for _, name := range []string{"\U0001F600", "\uFF21", "\uE000", "\U00010000", "u", "uri2", "\u20ac", "a\"b", "\u007f"} {
				if rapid.IntRange(0, 2).Draw(t, "endpointName") == 0 {
					ep[name] = "v"
				}
			}
		}
		return ep
	}
}

func genDocService(t *rapid.T, id string) map[string]interface{} {
	typ := rapid.SampledFrom([]string{"LinkedDomains", "DIDCommMessaging", "t", strings.Repeat("T", maxTypeLen), "IdentityHub"}).Draw(t, "svcType")
	s := map[string]interface{}{"id": id, "type": typ, "serviceEndpoint": genServiceEndpoint(t)}
	if rapid.IntRange(0, 3).Draw(t, "svcExtra") == 0 {
		s["priority"] = float64(rapid.IntRange(0, 3).Draw(t, "priority"))
		s["recipientKeys"] = []interface{}{"did:example:123#k"}
	}
	if rapid.IntRange(0, 4).Draw(t, "svcFurtherMember") == 0 {
		// further members of a service are opaque and kept; names that differ from id / type / serviceEndpoint only in letter
		// case are further members too
		name := rapid.SampledFrom([]string{"Type", "ID", "Id", "ServiceEndpoint", "TYPE", "serviceendpoint", "description", "@type", "Priority"}).Draw(t, "svcFurtherName")
		s[name] = rapid.SampledFrom([]interface{}{"further", nil, float64(7), []interface{}{"a"}, map[string]interface{}{"k": "v"}, false, ""}).Draw(t, "svcFurtherValue")
	}
	return s
}

func genUniqueIDs(t *rapid.T, min, max int, label string) []string {
	n := rapid.IntRange(min, max).Draw(t, label+"-n")
	seen := map[string]bool{}
	var out []string
	for i := 0; i < n*3 && len(out) < n; i++ {
		id := genID(t, label)
		if !seen[id] {
			seen[id] = true
			out = append(out, id)
		}
	}
	if len(out) < min {
		out = append(out, fmt.Sprintf("uniq%d", len(out)))
	}
	return out
}

func genKeyList(t *rapid.T, min, max int, consistent bool) []interface{} {
	var out []interface{}
	for _, id := range genUniqueIDs(t, min, max, "keyID") {
		out = append(out, genDocKey(t, id, consistent))
	}
	return out
}

func genServiceList(t *rapid.T, min, max int) []interface{} {
	var out []interface{}
	for _, id := range genUniqueIDs(t, min, max, "svcID") {
		out = append(out, genDocService(t, id))
	}
	return out
}

func genURIList(t *rapid.T, min, max int) []interface{} {
	n := rapid.IntRange(min, max).Draw(t, "nuris")
	seen := map[string]bool{}
	var out []interface{}
	for i := 0; i < n; i++ {
		u := rapid.SampledFrom(akaURIs).Draw(t, "aka")
		// within one patch the validator treats URIs with the same normal form as duplicates; across patches they are
		// different strings
		norm := u
		if pu, err := url.Parse(u); err == nil {
			norm = pu.String()
		}
		if !seen[norm] {
			seen[norm] = true
			out = append(out, u)
		}
	}
	if len(out) < min {
		out = append(out, "https://fallback.example/")
	}
	return out
}

var otherMemberNames = []string{"name", "test", "x", "publicKeyX", "service2", "publi", "servic", "extra_1", "@meta", "Service", "o", "p", "arr", "a/b", "m~n", "x~1y", "x/y", "", "0", "discount%", "a%%b", "50%off", "%s", "%d%v"}

var nestedMemberNames = []string{"y", "service", "publicKey", "id", "deep", "serviceEndpoint", "type", "publicKeyJwk", "alsoKnownAs"}

// genOtherMembers draws "other" top-level members with ordinary names (no JSON-pointer or quoting metacharacters).
func genOtherMembers(t *rapid.T, max int) map[string]interface{} {
	n := rapid.IntRange(0, max).Draw(t, "nother")
	out := map[string]interface{}{}
	for i := 0; i < n; i++ {
		name := rapid.SampledFrom(otherMemberNames).Draw(t, "otherName")
		switch rapid.IntRange(0, 4).Draw(t, "otherKind") {
		case 0:
			out[name] = rapid.SampledFrom([]string{"v", "value", ""}).Draw(t, "otherStr")
		case 1:
			out[name] = float64(rapid.IntRange(-3, 1000).Draw(t, "otherNum"))
		case 2:
			// below the top level "service", "publicKey", "id" are names like any other
			out[name] = map[string]interface{}{rapid.SampledFrom(nestedMemberNames).Draw(t, "nestedName"): "1", "z": []interface{}{float64(1), "two", map[string]interface{}{"k": true}}}
		case 3:
			out[name] = []interface{}{"e0", float64(1), map[string]interface{}{"in": "arr"}}
		default:
			out[name] = map[string]interface{}{"nested": map[string]interface{}{rapid.SampledFrom(nestedMemberNames).Draw(t, "deepName"): []interface{}{}}}
		}
	}
	return out
}

// genDocument draws a well-formed internal document.
func genDocument(t *rapid.T, consistent bool) map[string]interface{} {
	doc := genOtherMembers(t, 3)
	if ks := genKeyList(t, 0, 4, consistent); len(ks) > 0 {
		doc["publicKey"] = ks
	}
	if ss := genServiceList(t, 0, 3); len(ss) > 0 {
		doc["service"] = ss
	}
	if rapid.Bool().Draw(t, "hasAka") {
		doc["alsoKnownAs"] = genURIList(t, 1, 3)
	}
	return doc
}

// ---- patches ----

var allActions = []string{"ietf-json-patch", "add-public-keys", "remove-public-keys", "add-services", "remove-services", "add-also-known-as",
	"remove-also-known-as", "replace"}

func idsOf(list interface{}) []string {
	var out []string
	if l, ok := list.([]interface{}); ok {
		for _, e := range l {
			if m, ok := e.(map[string]interface{}); ok {
				if id, ok := m["id"].(string); ok {
					out = append(out, id)
				}
			}
		}
	}
	return out
}

// genIDsNear draws ids that hit, partially overlap or miss the given existing ids.
func genIDsNear(t *rapid.T, existing []string, min, max int, label string) []string {
	n := rapid.IntRange(min, max).Draw(t, label+"-n")
	seen := map[string]bool{}
	var out []string
	for i := 0; i < n*3 && len(out) < n; i++ {
		var id string
		if len(existing) > 0 && rapid.IntRange(0, 2).Draw(t, label+"-hit") > 0 {
			id = rapid.SampledFrom(existing).Draw(t, label+"-existing")
		} else {
			id = genID(t, label)
		}
		if !seen[id] {
			seen[id] = true
			out = append(out, id)
		}
	}
	if len(out) < min {
		out = append(out, "fresh"+strconv.Itoa(len(out)))
	}
	return out
}

func toIfaceList(ss []string) []interface{} {
	out := make([]interface{}, len(ss))
	for i, s := range ss {
		out[i] = s
	}
	return out
}

// genDedicatedPatch draws a valid patch of one of the seven dedicated actions against the current (reference) doc.
func genDedicatedPatch(t *rapid.T, action string, doc map[string]interface{}, consistent bool) map[string]interface{} {
	switch action {
	case "add-public-keys":
		var keys []interface{}
		for _, id := range genIDsNear(t, idsOf(doc["publicKey"]), 1, 3, "addKey") {
			keys = append(keys, genDocKey(t, id, consistent))
		}
		return map[string]interface{}{"action": action, "publicKeys": keys}
	case "remove-public-keys":
		return map[string]interface{}{"action": action, "ids": toIfaceList(genIDsNear(t, idsOf(doc["publicKey"]), 1, 3, "rmKey"))}
	case "add-services":
		var svcs []interface{}
		for _, id := range genIDsNear(t, idsOf(doc["service"]), 1, 3, "addSvc") {
			svcs = append(svcs, genDocService(t, id))
		}
		return map[string]interface{}{"action": action, "services": svcs}
	case "remove-services":
		return map[string]interface{}{"action": action, "ids": toIfaceList(genIDsNear(t, idsOf(doc["service"]), 1, 3, "rmSvc"))}
	case "add-also-known-as", "remove-also-known-as":
		return map[string]interface{}{"action": action, "uris": genURIList(t, 1, 3)}
	case "replace":
		d := map[string]interface{}{}
		if rapid.IntRange(0, 4).Draw(t, "replKeys") > 0 {
			d["publicKeys"] = genKeyList(t, 0, 3, consistent)
		}
		if rapid.IntRange(0, 4).Draw(t, "replSvcs") > 0 {
			d["services"] = genServiceList(t, 0, 2)
		}
		return map[string]interface{}{"action": action, "document": d}
	}
	panic("genDedicatedPatch: " + action)
}

// ---- reference composer ----

func isEmptyList(v interface{}) bool {
	if v == nil {
		return true
	}
	if l, ok := v.([]interface{}); ok && len(l) == 0 {
		return true
	}
	return false
}

// normalizeDoc drops absent / null / empty publicKey, service and alsoKnownAs members (the properties speak about keys and
// services, not about how an empty list is spelled).
func normalizeDoc(doc map[string]interface{}) map[string]interface{} {
	out := map[string]interface{}{}
	for k, v := range doc {
		if (k == "publicKey" || k == "service" || k == "alsoKnownAs") && isEmptyList(v) {
			continue
		}
		out[k] = v
	}
	return out
}

func entryID(e interface{}) string {
	if m, ok := e.(map[string]interface{}); ok {
		if id, ok := m["id"].(string); ok {
			return id
		}
	}
	return ""
}

func mapEntries(v interface{}) []interface{} {
	var out []interface{}
	if l, ok := v.([]interface{}); ok {
		for _, e := range l {
			if _, ok := e.(map[string]interface{}); ok {
				out = append(out, e)
			}
		}
	}
	return out
}

func stringEntries(v interface{}) []string {
	var out []string
	if l, ok := v.([]interface{}); ok {
		for _, e := range l {
			if s, ok := e.(string); ok {
				out = append(out, s)
			}
		}
	}
	return out
}

// upsertByID: insert or replace by id keeping existing order, appending new entries.
func upsertByID(existing, add []interface{}) []interface{} {
	out := append([]interface{}{}, existing...)
	had := map[string]bool{}
	for _, e := range existing {
		had[entryID(e)] = true
	}
	for _, a := range add {
		if had[entryID(a)] {
			for i := range out {
				if entryID(out[i]) == entryID(a) {
					out[i] = a
				}
			}
		} else {
			out = append(out, a)
		}
	}
	return out
}

func removeByID(existing []interface{}, ids []string) []interface{} {
	rm := map[string]bool{}
	for _, id := range ids {
		rm[id] = true
	}
	out := []interface{}{}
	for _, e := range existing {
		if !rm[entryID(e)] {
			out = append(out, e)
		}
	}
	return out
}

// refComposeOne applies one patch (JSON value) to a document per the documented per-action semantics.
func refComposeOne(doc map[string]interface{}, p map[string]interface{}) (map[string]interface{}, error) {
	doc = deepCopyValue(doc).(map[string]interface{})
	action, _ := p["action"].(string)
	switch action {
	case "add-public-keys":
		doc["publicKey"] = upsertByID(mapEntries(doc["publicKey"]), mapEntries(p["publicKeys"]))
	case "remove-public-keys":
		doc["publicKey"] = removeByID(mapEntries(doc["publicKey"]), stringEntries(p["ids"]))
	case "add-services":
		doc["service"] = upsertByID(mapEntries(doc["service"]), mapEntries(p["services"]))
	case "remove-services":
		doc["service"] = removeByID(mapEntries(doc["service"]), stringEntries(p["ids"]))
	case "add-also-known-as":
		cur := stringEntries(doc["alsoKnownAs"])
		have := map[string]bool{}
		for _, u := range cur {
			have[u] = true
		}
		for _, u := range stringEntries(p["uris"]) {
			if !have[u] {
				have[u] = true
				cur = append(cur, u)
			}
		}
		doc["alsoKnownAs"] = toIfaceList(cur)
	case "remove-also-known-as":
		rm := map[string]bool{}
		for _, u := range stringEntries(p["uris"]) {
			rm[u] = true
		}
		var cur []string
		for _, u := range stringEntries(doc["alsoKnownAs"]) {
			if !rm[u] {
				cur = append(cur, u)
			}
		}
		doc["alsoKnownAs"] = toIfaceList(cur)
	case "replace":
		d, _ := p["document"].(map[string]interface{})
		doc = map[string]interface{}{"publicKey": d["publicKeys"], "service": d["services"]}
	case "ietf-json-patch":
		ops, _ := p["patches"].([]interface{})
		var cur interface{} = doc
		for _, op := range ops {
			next, err := refPatch6902(cur, op.(map[string]interface{}))
			if err != nil {
				return nil, err
			}
			cur = next
		}
		m, ok := cur.(map[string]interface{})
		if !ok {
			return nil, fmt.Errorf("document is no longer an object")
		}
		doc = m
	default:
		return nil, fmt.Errorf("unknown action %q", action)
	}
	return doc, nil
}

// refCompose is the left fold of refComposeOne.
func refCompose(doc map[string]interface{}, patches []interface{}) (map[string]interface{}, error) {
	cur := deepCopyValue(doc).(map[string]interface{})
	for _, p := range patches {
		next, err := refComposeOne(cur, p.(map[string]interface{}))
		if err != nil {
			return nil, err
		}
		cur = next
	}
	return cur, nil
}

// ---- RFC 6902 reference evaluator ----

func parsePointer(p string) ([]string, error) {
	if p == "" {
		return nil, nil
	}
	if !strings.HasPrefix(p, "/") {
		return nil, fmt.Errorf("pointer %q does not start with /", p)
	}
	toks := strings.Split(p[1:], "/")
	for i, tk := range toks {
		toks[i] = strings.ReplaceAll(strings.ReplaceAll(tk, "~1", "/"), "~0", "~")
	}
	return toks, nil
}

func arrayIndex(tok string, n int, allowEnd bool) (int, error) {
	if tok == "-" {
		if allowEnd {
			return n, nil
		}
		return 0, fmt.Errorf("'-' not allowed here")
	}
	if tok == "" || (len(tok) > 1 && tok[0] == '0') {
		return 0, fmt.Errorf("bad index %q", tok)
	}
	for _, c := range tok {
		if c < '0' || c > '9' {
			return 0, fmt.Errorf("bad index %q", tok)
		}
	}
	i, err := strconv.Atoi(tok)
	if err != nil {
		return 0, err
	}
	if i > n || (!allowEnd && i >= n) {
		return 0, fmt.Errorf("index %d out of range", i)
	}
	return i, nil
}

func ptrGet(doc interface{}, toks []string) (interface{}, error) {
	cur := doc
	for _, tk := range toks {
		switch x := cur.(type) {
		case map[string]interface{}:
			v, ok := x[tk]
			if !ok {
				return nil, fmt.Errorf("member %q not found", tk)
			}
			cur = v
		case []interface{}:
			i, err := arrayIndex(tk, len(x), false)
			if err != nil {
				return nil, err
			}
			cur = x[i]
		default:
			return nil, fmt.Errorf("cannot descend into scalar at %q", tk)
		}
	}
	return cur, nil
}

// ptrModify rebuilds the path to the parent of the last token and applies f to (parent, lastToken).
func ptrModify(doc interface{}, toks []string, f func(parent interface{}, last string) (interface{}, error)) (interface{}, error) {
	if len(toks) == 1 {
		return f(doc, toks[0])
	}
	switch x := doc.(type) {
	case map[string]interface{}:
		child, ok := x[toks[0]]
		if !ok {
			return nil, fmt.Errorf("member %q not found", toks[0])
		}
		nc, err := ptrModify(child, toks[1:], f)
		if err != nil {
			return nil, err
		}
		out := map[string]interface{}{}
		for k, v := range x {
			out[k] = v
		}
		out[toks[0]] = nc
		return out, nil
	case []interface{}:
		i, err := arrayIndex(toks[0], len(x), false)
		if err != nil {
			return nil, err
		}
		nc, err := ptrModify(x[i], toks[1:], f)
		if err != nil {
			return nil, err
		}
		out := append([]interface{}{}, x...)
		out[i] = nc
		return out, nil
	}
	return nil, fmt.Errorf("cannot descend into scalar at %q", toks[0])
}

func ptrAdd(doc interface{}, toks []string, val interface{}) (interface{}, error) {
	if len(toks) == 0 {
		return deepCopyValue(val), nil
	}
	return ptrModify(doc, toks, func(parent interface{}, last string) (interface{}, error) {
		switch x := parent.(type) {
		case map[string]interface{}:
			out := map[string]interface{}{}
			for k, v := range x {
				out[k] = v
			}
			out[last] = deepCopyValue(val)
			return out, nil
		case []interface{}:
			i, err := arrayIndex(last, len(x), true)
			if err != nil {
				return nil, err
			}
			out := append([]interface{}{}, x[:i]...)
			out = append(out, deepCopyValue(val))
			return append(out, x[i:]...), nil
		}
		return nil, fmt.Errorf("add into scalar")
	})
}

func ptrRemove(doc interface{}, toks []string) (interface{}, error) {
	if len(toks) == 0 {
		return nil, fmt.Errorf("cannot remove the root")
	}
	return ptrModify(doc, toks, func(parent interface{}, last string) (interface{}, error) {
		switch x := parent.(type) {
		case map[string]interface{}:
			if _, ok := x[last]; !ok {
				return nil, fmt.Errorf("member %q not found", last)
			}
			out := map[string]interface{}{}
			for k, v := range x {
				if k != last {
					out[k] = v
				}
			}
			return out, nil
		case []interface{}:
			i, err := arrayIndex(last, len(x), false)
			if err != nil {
				return nil, err
			}
			out := append([]interface{}{}, x[:i]...)
			return append(out, x[i+1:]...), nil
		}
		return nil, fmt.Errorf("remove from scalar")
	})
}

// refPatch6902 applies one RFC 6902 operation; an error means the operation is not applicable per the RFC.
func refPatch6902(doc interface{}, op map[string]interface{}) (interface{}, error) {
	kind, _ := op["op"].(string)
	pathS, ok := op["path"].(string)
	if !ok {
		return nil, fmt.Errorf("missing path")
	}
	path, err := parsePointer(pathS)
	if err != nil {
		return nil, err
	}
	switch kind {
	case "add":
		v, ok := op["value"]
		if !ok {
			return nil, fmt.Errorf("missing value")
		}
		return ptrAdd(doc, path, v)
	case "remove":
		return ptrRemove(doc, path)
	case "replace":
		v, ok := op["value"]
		if !ok {
			return nil, fmt.Errorf("missing value")
		}
		if len(path) == 0 {
			return deepCopyValue(v), nil
		}
		if _, err := ptrGet(doc, path); err != nil {
			return nil, err
		}
		d2, err := ptrRemove(doc, path)
		if err != nil {
			return nil, err
		}
		return ptrAdd(d2, path, v)
	case "move", "copy":
		fromS, ok := op["from"].(string)
		if !ok {
			return nil, fmt.Errorf("missing from")
		}
		from, err := parsePointer(fromS)
		if err != nil {
			return nil, err
		}
		v, err := ptrGet(doc, from)
		if err != nil {
			return nil, err
		}
		v = deepCopyValue(v)
		if kind == "move" {
			if len(from) < len(path) && strings.Join(from, "\x00") == strings.Join(path[:len(from)], "\x00") {
				return nil, fmt.Errorf("cannot move into own child")
			}
			d2, err := ptrRemove(doc, from)
			if err != nil {
				return nil, err
			}
			return ptrAdd(d2, path, v)
		}
		return ptrAdd(doc, path, v)
	case "test":
		v, ok := op["value"]
		if !ok {
			return nil, fmt.Errorf("missing value")
		}
		cur, err := ptrGet(doc, path)
		if err != nil {
			return nil, err
		}
		if refJCS(cur) != refJCS(v) {
			return nil, fmt.Errorf("test failed")
		}
		return doc, nil
	}
	return nil, fmt.Errorf("unknown op %q", kind)
}

// ---- RFC 6902 operation generator ----

func escapeToken(s string) string {
	return strings.ReplaceAll(strings.ReplaceAll(s, "~", "~0"), "/", "~1")
}

// collectPointers lists JSON pointers to every node of v (and "-" slots of arrays), sorted.
func collectPointers(v interface{}, prefix string, out *[]string) {
	*out = append(*out, prefix)
	switch x := v.(type) {
	case map[string]interface{}:
		keys := make([]string, 0, len(x))
		for k := range x {
			keys = append(keys, k)
		}
		sort.Strings(keys)
		for _, k := range keys {
			collectPointers(x[k], prefix+"/"+escapeToken(k), out)
		}
	case []interface{}:
		for i, e := range x {
			collectPointers(e, prefix+"/"+strconv.Itoa(i), out)
		}
		*out = append(*out, prefix+"/-")
	}
}

func genSmallValue(t *rapid.T) interface{} {
	switch rapid.IntRange(0, 5).Draw(t, "valKind") {
	case 0:
		return rapid.SampledFrom([]string{"v", "new", ""}).Draw(t, "valStr")
	case 1:
		if rapid.IntRange(0, 3).Draw(t, "valZero") == 0 {
			return rapid.SampledFrom([]float64{0, 1e21, 0.5, 1e-7, 100}).Draw(t, "valSpecialNum")
		}
		return float64(rapid.IntRange(-2, 99).Draw(t, "valNum"))
	case 2:
		return map[string]interface{}{"y": "1"}
	case 3:
		return []interface{}{"a", float64(2)}
	case 4:
		return rapid.Bool().Draw(t, "valBool")
	default:
		return map[string]interface{}{"id": "k1", "type": tJWK2020}
	}
}

// genPointer draws a pointer that is either an existing location, a fresh member below an existing container, or junk.
func genPointer(t *rapid.T, doc interface{}, label string, avoidProtected bool) string {
	var ptrs []string
	collectPointers(doc, "", &ptrs)
	if avoidProtected {
		var keep []string
		for _, p := range ptrs {
			if !touchesProtected(p) {
				keep = append(keep, p)
			}
		}
		if len(keep) == 0 {
			keep = []string{"/" + otherMemberNames[0]}
		}
		ptrs = keep
	}
	res := ""
	switch rapid.IntRange(0, 10).Draw(t, label+"-kind") {
	case 3:
		// an existing array addressed with an index that is not one (negative, padded, signed, huge, fractional)
		var arrays []string
		for _, p := range ptrs {
			if strings.HasSuffix(p, "/-") {
				arrays = append(arrays, strings.TrimSuffix(p, "-"))
			}
		}
		if len(arrays) == 0 {
			res = "/" + rapid.SampledFrom(otherMemberNames).Draw(t, label+"-top")
		} else {
			res = rapid.SampledFrom(arrays).Draw(t, label+"-array") + rapid.SampledFrom([]string{"-1", "-2", "01", "+0", "1e0", "99999999999999999999", " 0", "0.0", "-0", ""}).Draw(t, label+"-badIndex")
		}
	case 0:
		base := rapid.SampledFrom(ptrs).Draw(t, label+"-base")
		base = strings.TrimSuffix(base, "/-")
		res = base + "/" + rapid.SampledFrom(append(append([]string{}, otherMemberNames...), nestedMemberNames...)).Draw(t, label+"-new")
	case 1:
		// "id" and "@context" are ordinary members of an internal document as far as patches go
		res = "/" + rapid.SampledFrom(append(append([]string{}, otherMemberNames...), "id", "@context", "identifier", "idx")).Draw(t, label+"-top")
	case 2:
		res = rapid.SampledFrom([]string{"", "/", "/x/y/z", "/arr/5", "/arr/-1", "/arr/01", "/o~1p", "/a~0b", "nope", "/arr/1e0"}).Draw(t, label+"-junk")
	default:
		res = rapid.SampledFrom(ptrs).Draw(t, label+"-existing")
	}
	if avoidProtected && touchesProtected(res) {
		res = "/name"
	}
	return res
}

var ops6902 = []string{"copy", "move", "add", "remove", "replace", "test"}

func genOp6902(t *rapid.T, doc interface{}, avoidProtected bool) map[string]interface{} {
	kind := rapid.SampledFrom(ops6902).Draw(t, "op")
	op := map[string]interface{}{"op": kind, "path": genPointer(t, doc, "path", avoidProtected)}
	switch kind {
	case "add", "replace":
		op["value"] = genSmallValue(t)
	case "test":
		if cur, err := ptrGetS(doc, op["path"].(string)); err == nil && rapid.Bool().Draw(t, "testHit") {
			op["value"] = deepCopyValue(cur)
		} else {
			op["value"] = genSmallValue(t)
		}
	case "move", "copy":
		op["from"] = genPointer(t, doc, "from", avoidProtected)
	}
	return op
}

func ptrGetS(doc interface{}, p string) (interface{}, error) {
	toks, err := parsePointer(p)
	if err != nil {
		return nil, err
	}
	return ptrGet(doc, toks)
}

// touchesProtected reports whether a pointer addresses publicKey / service, a prefix-named sibling, or the root.
func touchesProtected(p string) bool {
	return p == "" || strings.HasPrefix(p, "/publicKey") || strings.HasPrefix(p, "/service")
}

func b58encode(b []byte) string { return base58.Encode(b) }
