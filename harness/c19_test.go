package harness

// C19 — untrusted input is answered with an error, never a panic.
// Oracle: recover() around every entry point (a panic is a violation); death of the test process (stack overflow, fatal
// error) is reported by the driver through the in-flight journal; a time-out is inconclusive.

import (
	"bytes"
	"encoding/base64"
	"encoding/json"
	"fmt"
	"os"
	"path/filepath"
	"runtime"
	"sort"
	"strings"
	"sync"
	"sync/atomic"
	"testing"

	"pgregory.net/rapid"
)

func deepNest(n int, leaf interface{}) interface{} {
	v := leaf
	for i := 0; i < n; i++ {
		if i%2 == 0 {
			v = []interface{}{v}
		} else {
			v = map[string]interface{}{"a": v}
		}
	}
	return v
}

func genHostileValue(t *rapid.T) interface{} {
	switch rapid.IntRange(0, 21).Draw(t, "hostile") {
	case 0:
		return nil
	case 1:
		return true
	case 2:
		return false
	case 3:
		return float64(0)
	case 4:
		return float64(-1)
	case 5:
		return 1e308
	case 6:
		return 0.5
	case 7:
		return float64(1 << 53)
	case 8:
		return ""
	case 9:
		return "x"
	case 10:
		return strings.Repeat("A", rapid.SampledFrom([]int{51, 1000, 70000}).Draw(t, "bigLen"))
	case 11:
		return []interface{}{}
	case 12:
		return map[string]interface{}{}
	case 13:
		return []interface{}{nil}
	case 14:
		return []interface{}{[]interface{}{}}
	case 15:
		return map[string]interface{}{"": map[string]interface{}{}}
	case 16:
		return deepNest(rapid.SampledFrom([]int{50, 1000}).Draw(t, "nest"), "leaf")
	case 17:
		return "\u0000퟿￿"
	case 18:
		return "1"
	case 19:
		return []interface{}{"a", float64(1), nil, map[string]interface{}{}, []interface{}{}}
	case 20:
		return map[string]interface{}{"id": nil, "type": float64(1), "purposes": "authentication", "publicKeyJwk": []interface{}{}, "serviceEndpoint": map[string]interface{}{"a": nil}}
	default:
		return genValueTree(t, 0, 3, 3, &valueInfo{})
	}
}

// corruptValue applies 1-3 structure-aware corruptions to a copy of v.
func corruptValue(t *rapid.T, v interface{}) (interface{}, []string) {
	c := deepCopyValue(v)
	var how []string
	n := rapid.IntRange(1, 3).Draw(t, "ncorruptions")
	for i := 0; i < n; i++ {
		var h string
		c, h = corruptOnce(t, c)
		how = append(how, h)
	}
	return c, how
}

type nodeSlot struct {
	parent interface{}
	key    string
	idx    int
	path   string
}

func collectSlots(v interface{}, path string, out *[]nodeSlot) {
	switch x := v.(type) {
	case []interface{}:
		for i, e := range x {
			*out = append(*out, nodeSlot{parent: x, idx: i, path: fmt.Sprintf("%s/%d", path, i)})
			collectSlots(e, fmt.Sprintf("%s/%d", path, i), out)
		}
	case map[string]interface{}:
		keys := make([]string, 0, len(x))
		for k := range x {
			keys = append(keys, k)
		}
		sort.Strings(keys)
		for _, k := range keys {
			*out = append(*out, nodeSlot{parent: x, key: k, idx: -1, path: path + "/" + k})
			collectSlots(x[k], path+"/"+k, out)
		}
	}
}

func corruptOnce(t *rapid.T, c interface{}) (interface{}, string) {
	var slots []nodeSlot
	collectSlots(c, "", &slots)
	if len(slots) == 0 || rapid.IntRange(0, 30).Draw(t, "root") == 0 {
		return genHostileValue(t), "root-replaced"
	}
	sl := slots[rapid.IntRange(0, len(slots)-1).Draw(t, "slot")]
	switch rapid.IntRange(0, 5).Draw(t, "corruption") {
	case 0: // drop
		if sl.idx < 0 {
			delete(sl.parent.(map[string]interface{}), sl.key)
			return c, "dropped " + sl.path
		}
		fallthrough
	case 1, 2, 3: // replace by a value of another type
		hv := genHostileValue(t)
		if sl.idx >= 0 {
			sl.parent.([]interface{})[sl.idx] = hv
		} else {
			sl.parent.(map[string]interface{})[sl.key] = hv
		}
		return c, "replaced " + sl.path
	case 4: // add a member with an odd name next to it
		if m, ok := sl.parent.(map[string]interface{}); ok {
			m[rapid.SampledFrom([]string{"", "id", "type", "action", "path", "from", "op", "value", "patches", "__proto__", "kty", "x"}).Draw(t, "newName")] = genHostileValue(t)
			return c, "member added near " + sl.path
		}
		fallthrough
	default: // rename the member (case change) or duplicate the element
		if m, ok := sl.parent.(map[string]interface{}); ok {
			v := m[sl.key]
			delete(m, sl.key)
			m[strings.ToUpper(sl.key[:min(1, len(sl.key))])+sl.key[min(1, len(sl.key)):]] = v
			return c, "renamed " + sl.path
		}
		return c, "unchanged"
	}
}

var hostilePointers = []string{"", "/", "//", "/o", "/o/y", "/o/y/0", "/o/y/-", "/o/y/-1", "/o/y/2", "/o/y/99999999999999999999", "/o/y/01", "/o/y/1e0", "/o/y/+1",
	"/arr/-", "/arr/-1", "/arr/3", "/arr/2", "/arr/2/new", "/arr/0", "/o/new", "/o/y/0", "/arr/2/in", "/arr/2/in/x", "/o/~", "/o/~2", "/~0", "/~1", "/o/y/", "/alsoKnownAs/0", "/alsoKnownAs/-1", "o/y", "#/o", "/o/y/0/0/0", "/missing/x",
	// an index that is none at a place other than the last one
	"/arr/-1/in", "/arr/-2/in", "/arr/-3/in/x", "/o/y/-1/x", "/o/y/-2/0", "/arr/02/in", "/arr/+2/in", "/arr/-/in",
	// ... behind text that is not part of a pointer at all
	"x/arr/-1/in", "x/arr/-2/in", "#/o/y/-1/0", "x/o/y/-2", "arr:/arr/-1", "~1/arr/-3/in", "x/arr/-4/in", "x/alsoKnownAs/-1/x"}

// respellIndices writes numeric reference tokens in ways some readers take for the same index (leading zeros, a sign).
func respellIndices(t *rapid.T, ptr, label string) string {
	toks := strings.Split(ptr, "/")
	for i, tok := range toks {
		if tok == "" || strings.Trim(tok, "0123456789") != "" {
			continue
		}
		switch rapid.IntRange(0, 5).Draw(t, label+"-respell") {
		case 0:
			toks[i] = "0" + tok
		case 1:
			toks[i] = "+" + tok
		case 2:
			toks[i] = "00" + tok
		}
	}
	return strings.Join(toks, "/")
}

func genHostileIetfPatch(t *rapid.T) map[string]interface{} {
	n := rapid.IntRange(1, 4).Draw(t, "nops")
	var ops []interface{}
	for i := 0; i < n; i++ {
		op := map[string]interface{}{}
		kind := rapid.SampledFrom([]interface{}{"add", "remove", "replace", "move", "copy", "test", "", "Add", nil, float64(1)}).Draw(t, "op")
		op["op"] = kind
		ptr := func(l string) interface{} {
			switch rapid.IntRange(0, 9).Draw(t, l+"-kind") {
			case 0:
				return nil
			case 1:
				return float64(1)
			default:
				p := respellIndices(t, rapid.SampledFrom(hostilePointers).Draw(t, l), l)
				if rapid.IntRange(0, 4).Draw(t, l+"-textInFront") == 0 {
					// not a JSON pointer; the JSON patch library skips everything in front of the first '/'
					p = rapid.SampledFrom([]string{"x", "#", " ", "~1", "~0", "%2F", ".."}).Draw(t, l+"-prefix") + p
				}
				return p
			}
		}
		if (kind == "move" || kind == "copy") && rapid.IntRange(0, 1).Draw(t, "intoOwnSource") == 0 {
			// a pointer into its own source: 'from' names a container (in any spelling of its indices), 'path' a location inside it
			c := rapid.SampledFrom([]string{"/arr/2", "/arr/2", "/arr/2", "/o/y", "/o", "/arr", "/alsoKnownAs", ""}).Draw(t, "container")
			op["from"] = respellIndices(t, c, "selfFrom")
			op["path"] = c + "/" + rapid.SampledFrom([]string{"new", "0", "-", "in", "y", "1", "y/0"}).Draw(t, "child")
			ops = append(ops, op)
			continue
		}
		if rapid.IntRange(0, 9).Draw(t, "hasPath") > 0 {
			op["path"] = ptr("path")
		}
		if kind == "move" || kind == "copy" || rapid.IntRange(0, 5).Draw(t, "hasFrom") == 0 {
			op["from"] = ptr("from")
		}
		if rapid.IntRange(0, 3).Draw(t, "hasValue") > 0 {
			op["value"] = genHostileValue(t)
		}
		ops = append(ops, op)
	}
	return map[string]interface{}{"action": "ietf-json-patch", "patches": ops}
}

func runEntry(t *rapid.T, st *propStats, entry string, input []byte, what string) {
	f, ok := entryPoints()[entry]
	if !ok {
		t.Fatalf("harness: unknown entry %s", entry)
	}
	journal(entry, input)
	// hand over a slice without spare capacity (as produced by base64 decoding or make): reads past the end then fault
	exact := make([]byte, len(input))
	copy(exact, input)
	input = exact
	if perr := callNoPanic(func() { f(input) }); perr != nil {
		t.Fatalf("C19 %s panicked on %s\n input (%d bytes): %s\n %v", entry, what, len(input), clip(string(input), 3000), perr)
	}
	st.Label("entry-" + entry)
}

func TestC19_Corruptions(t *testing.T) {
	st := statsFor("C19")
	entrySetup()
	check(t, "C19", 3000, func(t *rapid.T) {
		p := wideProtocol()
		kind := rapid.SampledFrom([]string{"request-outer", "request-inner-delta", "request-inner-signed", "request-header", "request-unexpected-type",
			"patch", "patch-sequence", "history", "empty-create", "ietf-hostile", "did", "did-string", "jws-jwk", "catalogue", "bytes"}).Draw(t, "target")
		nontrivial := false
		desc := kind
		switch kind {
		case "request-outer", "request-inner-delta", "request-inner-signed", "request-header", "request-unexpected-type":
			typ := rapid.SampledFrom([]string{"create", "update", "recover", "deactivate"}).Draw(t, "opType")
			ctx := &opGenCtx{P: p, Doc: map[string]interface{}{}, Suffix: entrySuffix, Keys: entryKeys(), St: st, Classes: []string{"valid"}, Time: 5}
			c := genOpCase(t, typ, ctx)
			b := c.Build
			var how []string
			switch kind {
			case "request-outer":
				var v interface{}
				v, how = corruptValue(t, b.Req)
				raw := []byte(refJCS(v))
				runEntry(t, st, "ParseRequest", raw, kind)
				runEntry(t, st, "Apply", []byte(refJCS(map[string]interface{}{"type": typ, "request": string(raw)})), kind)
				nontrivial = true
			case "request-inner-delta":
				if b.Delta == nil {
					st.Exclude("deactivate has no delta")
					return
				}
				var v interface{}
				v, how = corruptValue(t, b.Delta)
				// the corrupted delta is hashed and signed so that it passes the outer checks
				h := refHash(v, b.Alg)
				if typ == "create" {
					b.SuffixData["deltaHash"] = h
				} else {
					b.Signed["deltaHash"] = h
					b.sign()
				}
				b.assemble()
				b.Req["delta"] = v
				raw := b.bytes()
				runEntry(t, st, "ParseRequest", raw, kind)
				runEntry(t, st, "Apply", []byte(refJCS(map[string]interface{}{"type": typ, "request": string(raw)})), kind)
				nontrivial = true
			case "request-inner-signed":
				var target map[string]interface{}
				if typ == "create" {
					target = b.SuffixData
				} else {
					target = b.Signed
				}
				v, h2 := corruptValue(t, target)
				how = h2
				if typ == "create" {
					b.Req["suffixData"] = v
				} else {
					hs := headerJSON(b.Header)
					pl := []byte(refJCS(v))
					b.JWS = compactJWS(hs, pl, b.SignKey.Sign([]byte(b64([]byte(hs))+"."+b64(pl)), 0))
					b.assemble()
				}
				raw := b.bytes()
				runEntry(t, st, "ParseRequest", raw, kind)
				runEntry(t, st, "Apply", []byte(refJCS(map[string]interface{}{"type": typ, "request": string(raw)})), kind)
				nontrivial = true
			case "request-header":
				if typ == "create" {
					st.Exclude("create has no protected header")
					return
				}
				v, h2 := corruptValue(t, b.Header)
				how = h2
				if hm, ok := v.(map[string]interface{}); ok && rapid.IntRange(0, 2).Draw(t, "knownHeaderMember") == 0 {
					// header members the JWS code knows about, with values of every JSON type
					name := rapid.SampledFrom([]string{"b64", "crit", "kid", "alg", "typ", "jwk", "cty"}).Draw(t, "headerMember")
					hm[name] = genHostileValue(t)
					how = append(how, "header member "+name+" of another type")
				}
				hs := refJCS(v)
				pl := []byte(refJCS(b.Signed))
				b.JWS = compactJWS(hs, pl, b.SignKey.Sign([]byte(b64([]byte(hs))+"."+b64(pl)), 0))
				b.assemble()
				raw := b.bytes()
				runEntry(t, st, "ParseRequest", raw, kind)
				runEntry(t, st, "Apply", []byte(refJCS(map[string]interface{}{"type": typ, "request": string(raw)})), kind)
				runEntry(t, st, "JWS", []byte(refJCS(map[string]interface{}{"jws": b.JWS, "jwk": b.SignKey.JWKValue()})), kind)
				nontrivial = true
			default:
				// a valid operation handed to entry points that expect another type
				raw := b.bytes()
				runEntry(t, st, "ParseRequest", raw, kind)
				runEntry(t, st, "Apply", []byte(refJCS(map[string]interface{}{"type": rapid.SampledFrom([]string{"create", "update", "recover", "deactivate", ""}).Draw(t, "anchoredAs"), "request": string(raw)})), kind)
				// type member rewritten without touching anything else
				b.Req["type"] = rapid.SampledFrom([]string{"create", "update", "recover", "deactivate"}).Draw(t, "retyped")
				runEntry(t, st, "ParseRequest", b.bytes(), kind)
				nontrivial = true
			}
			desc = kind + "/" + typ + fmt.Sprint(how)
		case "patch":
			action := rapid.SampledFrom(allActions).Draw(t, "action")
			var pv map[string]interface{}
			if action == "ietf-json-patch" {
				pv = map[string]interface{}{"action": action, "patches": []interface{}{genOp6902(t, sampleDocForPatches, false)}}
			} else {
				pv = genDedicatedPatch(t, action, sampleDocForPatches, false)
			}
			v, how := corruptValue(t, pv)
			raw := []byte(refJCS(v))
			runEntry(t, st, "Patch", raw, kind)
			runEntry(t, st, "Bytes", raw, kind)
			if m, ok := v.(map[string]interface{}); ok {
				runEntry(t, st, "ApplyPatches", []byte(refJCS(map[string]interface{}{"doc": sampleDocForPatches, "patches": []interface{}{m}})), kind)
			}
			nontrivial = true
			desc = kind + "/" + action + fmt.Sprint(how)
		case "patch-sequence":
			// a document with members of unexpected JSON types (as an earlier ietf-json-patch may leave it, or as a caller may hand
			// it over), an operation that reshapes a member or the whole document, then ordinary valid patches of every action
			doc := deepCopyValue(sampleDocForPatches).(map[string]interface{})
			for _, member := range []string{"alsoKnownAs", "publicKey", "service", "other"} {
				switch rapid.IntRange(0, 3).Draw(t, "illTyped-"+member) {
				case 0:
					doc[member] = genHostileValue(t)
				case 1:
					if l, ok := doc[member].([]interface{}); ok {
						doc[member] = append(append([]interface{}{}, l...), genHostileValue(t))
					}
				}
			}
			var list []interface{}
			if rapid.IntRange(0, 2).Draw(t, "reshape") > 0 {
				path := rapid.SampledFrom([]string{"/alsoKnownAs", "/alsoKnownAs/-", "/alsoKnownAs/0", "", "/other", "/o", "/publicKey", "/service"}).Draw(t, "reshapePath")
				list = append(list, map[string]interface{}{"action": "ietf-json-patch", "patches": []interface{}{
					map[string]interface{}{"op": rapid.SampledFrom([]string{"add", "replace"}).Draw(t, "reshapeOp"), "path": path, "value": genHostileValue(t)}}})
			}
			for i, n := 0, rapid.IntRange(1, 3).Draw(t, "typedPatches"); i < n; i++ {
				list = append(list, genDedicatedPatch(t, rapid.SampledFrom(allActions[1:]).Draw(t, "action"), sampleDocForPatches, false))
			}
			runEntry(t, st, "ApplyPatches", []byte(refJCS(map[string]interface{}{"doc": doc, "patches": list})), kind)
			// the same list as the delta of a create (hashed, so that it reaches the composer) and of an update of an existing document
			cr := newCreate(18, entryKeys().Recovery, entryKeys().Update, list, nil, "")
			runEntry(t, st, "ParseRequest", cr.bytes(), kind)
			runEntry(t, st, "Apply", []byte(refJCS(map[string]interface{}{"type": "create", "request": string(cr.bytes())})), kind)
			up := newUpdate(18, entrySuffix, entryKeys().Update, pool()[ktP256][3], list, 0, 0)
			runEntry(t, st, "Apply", []byte(refJCS(map[string]interface{}{"type": "update", "request": string(up.bytes())})), kind)
			nontrivial = true
			desc = kind + refJCS(list)
		case "empty-create":
			// a create request that is valid in every respect and whose patches leave nothing behind (removals from the empty
			// document, a replace by an empty document): processed, resolved in long form and applied, it is answered with a
			// document or an error
			var list []interface{}
			for i, n := 0, rapid.IntRange(1, 3).Draw(t, "npatches"); i < n; i++ {
				list = append(list, rapid.SampledFrom([]interface{}{
					map[string]interface{}{"action": "remove-public-keys", "ids": []interface{}{"k1"}},
					map[string]interface{}{"action": "remove-services", "ids": []interface{}{"s1", "s2"}},
					map[string]interface{}{"action": "remove-also-known-as", "uris": []interface{}{"https://gone.example/"}},
					map[string]interface{}{"action": "replace", "document": map[string]interface{}{}},
					map[string]interface{}{"action": "replace", "document": map[string]interface{}{"publicKeys": []interface{}{}, "services": []interface{}{}}},
				}).Draw(t, "emptyingPatch"))
			}
			rec, upd := genKey(t, "rec"), genKey(t, "upd")
			if rec.Commitment(18) == upd.Commitment(18) {
				upd = otherKey(t, rec)
			}
			cr := newCreate(18, rec, upd, list, nil, "")
			runEntry(t, st, "ParseRequest", cr.bytes(), kind)
			runEntry(t, st, "ResolveDID", []byte("did:ion:"+cr.suffixFor(18)+":"+b64(cr.bytes())), kind)
			runEntry(t, st, "Apply", []byte(refJCS(map[string]interface{}{"type": "create", "request": string(cr.bytes())})), kind)
			nontrivial = true
			desc = kind + refJCS(list)
		case "history":
			// a valid create and valid successors whose free-form members (anchor origin, suffix type, patch values) have every
			// JSON shape: state left by one operation meets the values of the next
			shape := func(l string) interface{} {
				switch rapid.IntRange(0, 3).Draw(t, l) {
				case 0:
					return genOrigin(t)
				case 1:
					return genHostileValue(t)
				default:
					return rapid.SampledFrom([]interface{}{map[string]interface{}{"a": []interface{}{float64(1)}}, []interface{}{map[string]interface{}{}}, float64(7), true, "s", nil}).Draw(t, l+"-v")
				}
			}
			rec, upd := genKey(t, "rec"), genKey(t, "upd")
			if rec.Commitment(18) == upd.Commitment(18) {
				upd = otherKey(t, rec)
			}
			aka := func(u string) []interface{} {
				return []interface{}{map[string]interface{}{"action": "add-also-known-as", "uris": []interface{}{u}}}
			}
			cr := newCreate(18, rec, upd, aka("https://h.example/0"), shape("createOrigin"), "")
			suffix := cr.suffixFor(18)
			ops := []interface{}{map[string]interface{}{"type": "create", "request": string(cr.bytes())}}
			for i, n := 0, rapid.IntRange(1, 3).Draw(t, "successors"); i < n; i++ {
				switch rapid.SampledFrom([]string{"recover", "recover", "update", "deactivate"}).Draw(t, "successor") {
				case "recover":
					nr, nu := otherKey(t, rec), otherKey(t, upd)
					if nr.Commitment(18) == nu.Commitment(18) {
						continue
					}
					b := newRecover(18, suffix, rec, nr, nu, aka(fmt.Sprintf("https://h.example/%d", i+1)), shape("recoverOrigin"), 0, 0)
					ops = append(ops, map[string]interface{}{"type": "recover", "request": string(b.bytes())})
					rec, upd = nr, nu
				case "update":
					nu := otherKey(t, upd)
					b := newUpdate(18, suffix, upd, nu, aka(fmt.Sprintf("https://h.example/%d", i+1)), 0, 0)
					if rapid.IntRange(0, 3).Draw(t, "updateWithoutDelta") == 0 {
						delete(b.Req, "delta") // the signed data still names the hash of the delta that is not there
					}
					ops = append(ops, map[string]interface{}{"type": "update", "request": string(b.bytes())})
					upd = nu
				default:
					b := newDeactivate(18, suffix, rec, 0, 0)
					ops = append(ops, map[string]interface{}{"type": "deactivate", "request": string(b.bytes())})
				}
			}
			runEntry(t, st, "ApplyHistory", []byte(refJCS(map[string]interface{}{"suffix": suffix, "ops": ops})), kind)
			nontrivial = len(ops) > 1
			desc = kind + fmt.Sprint(len(ops))
		case "ietf-hostile":
			pv := genHostileIetfPatch(t)
			raw := []byte(refJCS(pv))
			runEntry(t, st, "Patch", raw, kind)
			runEntry(t, st, "ApplyPatches", []byte(refJCS(map[string]interface{}{"doc": sampleDocForPatches, "patches": []interface{}{pv}})), kind)
			// inside an otherwise valid update (hashed and signed)
			b := newUpdate(18, entrySuffix, entryKeys().Update, pool()[ktP256][3], []interface{}{pv}, 0, 0)
			runEntry(t, st, "ParseRequest", b.bytes(), kind)
			runEntry(t, st, "Apply", []byte(refJCS(map[string]interface{}{"type": "update", "request": string(b.bytes())})), kind)
			nontrivial = true
			desc = kind + string(raw)
		case "did":
			// long-form DID whose initial state is a corrupted (but canonically encoded) create request
			cr := genOpCase(t, "create", &opGenCtx{P: p, St: st, NoIetf: true, Classes: []string{"valid"}})
			v, how := corruptValue(t, cr.Build.Req)
			suffix := "EiAsuffix"
			if m, ok := v.(map[string]interface{}); ok {
				if sd, ok := m["suffixData"]; ok {
					suffix = refHash(sd, 18)
				}
			}
			did := "did:ion:" + suffix + ":" + b64([]byte(refJCS(v)))
			runEntry(t, st, "ResolveDID", []byte(did), kind)
			nontrivial = true
			desc = kind + fmt.Sprint(how)
		case "did-string":
			cr := genOpCase(t, "create", &opGenCtx{P: p, St: st, NoIetf: true, Classes: []string{"valid"}})
			did := "did:ion:" + cr.Build.suffixFor(18) + ":" + b64(cr.Build.bytes())
			switch rapid.IntRange(0, 6).Draw(t, "didMut") {
			case 0:
				did = strings.Repeat(":", rapid.IntRange(0, 5).Draw(t, "colons"))
			case 1:
				did = did[:rapid.IntRange(0, len(did)).Draw(t, "cut")]
			case 2:
				did = strings.Replace(did, ":", "::", rapid.IntRange(1, 3).Draw(t, "n"))
			case 3:
				did = "did:ion:" + did
			case 4:
				did = did + ":" + b64([]byte("{}"))
			case 5:
				did = "did:ion:did:ion:" + strings.TrimPrefix(did, "did:ion:")
			default:
				i := rapid.IntRange(0, len(did)-1).Draw(t, "pos")
				did = did[:i] + string(rune(rapid.IntRange(0, 255).Draw(t, "byte"))) + did[i+1:]
			}
			runEntry(t, st, "ResolveDID", []byte(did), kind)
			nontrivial = strings.Count(did, ":") >= 3
		case "catalogue":
			// the labelled refusal classes the other properties use (wrong-size and undecodable nonces, malformed reveal values,
			// header and key defects, delta problems ...): each is hostile input in its own way, each is answered with an error
			typ := rapid.SampledFrom([]string{"update", "recover", "deactivate", "create"}).Draw(t, "opType")
			ctx := &opGenCtx{P: p, Doc: map[string]interface{}{}, Suffix: entrySuffix, Keys: entryKeys(), St: st, Time: 5, NoIetf: rapid.Bool().Draw(t, "noIetf")}
			c := genOpCase(t, typ, ctx)
			raw := c.Bytes // what the class produced (not always the serialization of the builder: cut-off text, another type)
			runEntry(t, st, "ParseRequest", raw, kind)
			runEntry(t, st, "Apply", []byte(refJCS(map[string]interface{}{"type": typ, "request": string(raw)})), kind)
			nontrivial = c.Class != "valid"
			desc = kind + typ + c.Class + string(raw)
		case "jws-jwk":
			k := genKey(t, "key")
			jwkV, how := corruptValue(t, k.JWKValue())
			hdr := map[string]interface{}{"alg": k.Type.Alg()}
			j := signCompact(k, hdr, []byte(`{"a":1}`), 0)
			seg := strings.Split(j, ".")
			switch rapid.IntRange(0, 4).Draw(t, "jwsMut") {
			case 0:
				hv, _ := corruptValue(t, hdr)
				seg[0] = b64([]byte(refJCS(hv)))
			case 1:
				seg[rapid.IntRange(0, 2).Draw(t, "seg")] = ""
			case 2:
				seg = append(seg, seg...)
			case 3:
				seg[2] = seg[2][:rapid.IntRange(0, len(seg[2])).Draw(t, "sigCut")]
			}
			if rapid.IntRange(0, 2).Draw(t, "namesRespelled") == 0 {
				// an otherwise genuine key whose type / curve names are spelled slightly differently: the places that compare
				// these names do not all compare them the same way
				m := k.JWKValue()
				for _, n := range []string{"kty", "crv"} {
					if v, ok := m[n].(string); ok && rapid.IntRange(0, 2).Draw(t, n+"Respelled") > 0 {
						switch rapid.IntRange(0, 4).Draw(t, n+"Spelling") {
						case 0:
							m[n] = strings.ToUpper(v)
						case 1:
							m[n] = strings.ToLower(v)
						case 2:
							m[n] = strings.ToUpper(v[:1]) + strings.ToLower(v[1:])
						case 3:
							m[n] = v + " "
						default:
							m[n] = rapid.SampledFrom([]string{"EC", "OKP", "P-256", "P-384", "P-521", "secp256k1", "Ed25519", "SECP256K1", "ed25519", "p-256"}).Draw(t, n+"Other")
						}
					}
				}
				jwkV = m
			}
			runEntry(t, st, "JWS", []byte(refJCS(map[string]interface{}{"jws": strings.Join(seg, "."), "jwk": jwkV})), kind)
			runEntry(t, st, "JWS", []byte(refJCS(map[string]interface{}{"jws": j, "jwk": jwkV})), kind)
			nontrivial = true
			desc = kind + fmt.Sprint(how)
		default: // bytes
			var text string
			switch rapid.IntRange(0, 3).Draw(t, "bytesKind") {
			case 0:
				text = spell(t, genTopLevel(t, 4, 4, &valueInfo{}), 1)
			case 1:
				text = refJCS(deepNest(rapid.SampledFrom([]int{100, 3000}).Draw(t, "depth"), float64(1)))
			case 2:
				text = refJCS(genDedicatedPatch(t, rapid.SampledFrom(allActions[1:]).Draw(t, "action"), sampleDocForPatches, false))
			default:
				text = string(rapid.SliceOfN(rapid.Byte(), 0, 64).Draw(t, "raw"))
			}
			b := []byte(text)
			for i, n := 0, rapid.IntRange(0, 3).Draw(t, "byteMuts"); i < n && len(b) > 0; i++ {
				pos := rapid.IntRange(0, len(b)-1).Draw(t, "bpos")
				switch rapid.IntRange(0, 3).Draw(t, "bmut") {
				case 0:
					b[pos] = rapid.Byte().Draw(t, "b")
				case 1:
					b = append(b[:pos], b[pos+1:]...)
				case 2:
					b = append(b[:pos], append([]byte{rapid.SampledFrom([]byte{'"', '\\', '{', '[', ',', ':', 'e', '-', 0, 0xff, 'u'}).Draw(t, "ins")}, b[pos:]...)...)
				default:
					b = b[:pos]
				}
			}
			// cut inside an escape sequence / literal / number (the places where a scanner reads ahead)
			if rapid.IntRange(0, 3).Draw(t, "cutInsideToken") == 0 {
				var cuts []int
				for _, tok := range []string{`\u`, `\`, "tru", "fals", "nul", "e+", "."} {
					for off := 0; ; {
						i := strings.Index(string(b[off:]), tok)
						if i < 0 {
							break
						}
						cuts = append(cuts, off+i+len(tok))
						off += i + 1
					}
				}
				if len(cuts) > 0 {
					c := cuts[rapid.IntRange(0, len(cuts)-1).Draw(t, "cutAt")] + rapid.IntRange(0, 3).Draw(t, "cutExtra")
					if c < len(b) {
						b = b[:c]
					}
				}
			}
			runEntry(t, st, "Bytes", b, kind)
			nontrivial = json.Valid(b) || len(b) > 2
		}
		st.Case(nontrivial, desc, "target-"+kind)
		st.Sample(kind, 1, func() interface{} { return map[string]interface{}{"target": kind, "what": clip(desc, 400)} })
	})
}

// TestC19_RegressAndCorpus runs the committed regression inputs (regress/C19/*.json: {"entry":..,"input":..}) and, when
// VERIF_WRITE_CORPUS is set, writes seed corpora for the native fuzz targets.
func TestC19_Regress(t *testing.T) {
	st := statsFor("C19")
	dir := filepath.Join(os.Getenv("VERIF_REGRESS"), "C19")
	files, _ := filepath.Glob(filepath.Join(dir, "*.json"))
	for _, f := range files {
		b, err := os.ReadFile(f)
		if err != nil {
			t.Fatal(err)
		}
		var j struct {
			Entry string `json:"entry"`
			Input string `json:"input"`
			Note  string `json:"note"`
		}
		if err := json.Unmarshal(b, &j); err != nil {
			t.Fatalf("%s: %v", f, err)
		}
		fn, ok := entryPoints()[j.Entry]
		if !ok {
			t.Fatalf("%s: unknown entry %s", f, j.Entry)
		}
		journal(j.Entry, []byte(j.Input))
		if perr := callNoPanic(func() { fn([]byte(j.Input)) }); perr != nil {
			t.Errorf("C19 regress %s (%s): %v", filepath.Base(f), j.Note, perr)
		}
		st.Case(true, "regress:"+filepath.Base(f), "regress")
	}
}

// TestC19_DeepNesting: deeply nested input (up to 1 MiB of brackets) must be answered, not exhaust the stack.
func TestC19_DeepNesting(t *testing.T) {
	st := statsFor("C19")
	entrySetup()
	// the canonicalizer's running time is quadratic in the nesting depth (100 000 levels take about 16 s, 1 MiB of
	// brackets several minutes): it terminates, so depth is bounded here by the time budget, not by the property
	depths := []int{10000, 30000}
	if thorough() {
		if i, _ := shard(); i == 0 {
			depths = append(depths, 100000)
		}
	}
	for _, depth := range depths {
		for _, open := range []string{"[", `{"a":`} {
			closeTok := "]"
			if open != "[" {
				closeTok = "}"
			}
			text := strings.Repeat(open, depth) + "1" + strings.Repeat(closeTok, depth)
			if len(text) > 1<<20 {
				text = strings.Repeat(open, (1<<20)/len(open)) // unterminated, exactly 1 MiB
			}
			for _, entry := range []string{"Bytes", "ParseRequest", "Patch"} {
				in := []byte(text)
				if entry == "ParseRequest" {
					in = []byte(`{"type":"create","suffixData":` + text + `}`)
				}
				journal(entry, in[:min(len(in), 4096)])
				if perr := callNoPanic(func() { entryPoints()[entry](in) }); perr != nil {
					t.Fatalf("C19 %s panicked on %d-deep nesting: %v", entry, depth, perr)
				}
				st.Case(true, fmt.Sprintf("deep|%s|%d|%s", entry, depth, open), "deep-nesting")
			}
		}
	}
}

// ---- native fuzz targets (thorough tier) ----

func fuzzEntry(f *testing.F, entry string, seeds [][]byte) {
	entrySetup()
	for _, s := range seeds {
		f.Add(s)
	}
	fn := entryPoints()[entry]
	f.Fuzz(func(t *testing.T, data []byte) {
		if len(data) > 1<<16 {
			return
		}
		journal(entry, data)
		exact := make([]byte, len(data))
		copy(exact, data)
		data = exact
		if perr := callNoPanic(func() { fn(data) }); perr != nil {
			t.Fatalf("C19 fuzz %s panicked: %v", entry, perr)
		}
	})
}

func seedRequests() [][]byte {
	entrySetup()
	k := entryKeys()
	patches := []interface{}{map[string]interface{}{"action": "add-also-known-as", "uris": []interface{}{"https://a.example/"}},
		map[string]interface{}{"action": "ietf-json-patch", "patches": []interface{}{map[string]interface{}{"op": "copy", "from": "/o", "path": "/o/y/0"}}}}
	var out [][]byte
	out = append(out, newCreate(18, k.Recovery, k.Update, patches, "origin", "").bytes())
	out = append(out, newUpdate(18, entrySuffix, k.Update, pool()[ktP256][1], patches, 1, 0).bytes())
	out = append(out, newRecover(19, entrySuffix, k.Recovery, pool()[ktP384][1], pool()[ktSecp256k1][1], patches, map[string]interface{}{"a": 1.0}, 0, 9).bytes())
	out = append(out, newDeactivate(18, entrySuffix, k.Recovery, 0, 0).bytes())
	out = append(out, []byte(`{"type":"update","didSuffix":"x","revealValue":"EiA","signedData":"e30.e30.e30"}`), []byte(`{"type":"create"}`), []byte(`{}`))
	return out
}

func FuzzC19_ParseRequest(f *testing.F) { fuzzEntry(f, "ParseRequest", seedRequests()) }

func FuzzC19_Bytes(f *testing.F) {
	seeds := [][]byte{[]byte(`{"action":"ietf-json-patch","patches":[{"op":"add","path":"/a/-1","value":null}]}`), []byte(`{"action":"replace","document":{"publicKeys":[{"id":"k","type":"JsonWebKey2020","publicKeyJwk":{"kty":"EC","crv":"P-256","x":"a","y":"b"}}]}}`),
		[]byte(`{"kty":"OKP","crv":"Ed25519","x":"MUHrmMwtkWnv6kdTFD1HM6vymQLt-HJsOqYtuGm7Ezs"}`), []byte(`[1e400,"\ud800"]`), []byte(`EiDKIkwwX5-h1w9MqL9BdXc9J_Zk-vPJqBBq1cpSKzKzgw`), []byte(`{"publicKey":[{"id":1}],"service":[null]}`)}
	fuzzEntry(f, "Bytes", seeds)
}

func FuzzC19_Patch(f *testing.F) {
	var seeds [][]byte
	for _, p := range []string{
		`{"action":"ietf-json-patch","patches":[{"op":"copy","from":"/o","path":"/o/y/0"},{"op":"move","from":"/arr/0","path":"/arr/-"},{"op":"test","path":"/o/y/1","value":1}]}`,
		`{"action":"add-public-keys","publicKeys":[{"id":"k2","type":"Ed25519VerificationKey2018","publicKeyBase58":"4KHH6JVGnLaehtFN7a6mjqaJ24Gjo3zHocYKy4ZG1tnn","purposes":["authentication"]}]}`,
		`{"action":"remove-services","ids":["s1"]}`, `{"action":"add-also-known-as","uris":["https://b.example/"]}`,
		`{"action":"replace","document":{"services":[{"id":"s","type":"t","serviceEndpoint":["https://x.example",{"uri":"y"}]}]}}`,
		`{"action":"ietf-json-patch","patches":[{"op":"add","path":null}]}`} {
		seeds = append(seeds, []byte(p))
	}
	fuzzEntry(f, "Patch", seeds)
}

func FuzzC19_ResolveDID(f *testing.F) {
	entrySetup()
	k := entryKeys()
	cr := newCreate(18, k.Recovery, k.Update, []interface{}{map[string]interface{}{"action": "add-also-known-as", "uris": []interface{}{"https://a.example/"}}}, nil, "")
	seeds := [][]byte{[]byte("did:ion:" + cr.suffixFor(18) + ":" + b64(cr.bytes())), []byte("did:ion:abc"), []byte("did:ion:a:" + base64.RawURLEncoding.EncodeToString([]byte(`{"delta":{},"suffixData":{}}`))), []byte(":::")}
	fuzzEntry(f, "ResolveDID", seeds)
}

func FuzzC19_JWS(f *testing.F) {
	k := pool()[ktP256][0]
	j := signCompact(k, map[string]interface{}{"alg": "ES256"}, []byte(`{"a":1}`), 0)
	seeds := [][]byte{[]byte(refJCS(map[string]interface{}{"jws": j, "jwk": k.JWKValue()})), []byte(`{"jws":"e30.e30.e30","jwk":{"kty":"OKP","crv":"Ed25519","x":""}}`),
		[]byte(`{"jws":"eyJhbGciOiJFZERTQSIsImI2NCI6MX0.YQ.YQ","jwk":{"kty":"EC","crv":"secp256k1","x":"AA","y":"AA"}}`)}
	fuzzEntry(f, "JWS", seeds)
}

// FuzzC17 — resolution of arbitrary DID strings never succeeds unless the string is a well-formed long-form DID whose
// suffix is the hash of its suffix data (semantic oracle inside the target).
func FuzzC17(f *testing.F) {
	entrySetup()
	k := entryKeys()
	cr := newCreate(18, k.Recovery, k.Update, []interface{}{map[string]interface{}{"action": "add-also-known-as", "uris": []interface{}{"https://a.example/"}}}, nil, "")
	f.Add("did:ion:" + cr.suffixFor(18) + ":" + b64(cr.bytes()))
	f.Add("did:ion:" + cr.suffixFor(18))
	f.Add("did:ionx:" + cr.suffixFor(18) + ":" + b64(cr.bytes()))
	f.Add("did:ion::" + cr.suffixFor(18) + ":" + b64(cr.bytes()))
	f.Add("did:ion:x:y:" + cr.suffixFor(18) + ":" + b64(cr.bytes()))
	f.Fuzz(func(t *testing.T, did string) {
		if len(did) > 1<<14 {
			return
		}
		var res interface{ ID() string }
		var err error
		if perr := callNoPanic(func() {
			r, e := entryHandler.ResolveDocument(did)
			err = e
			if e == nil {
				res = r.Document
			}
		}); perr != nil {
			t.Fatalf("C17/C19 fuzz: ResolveDocument panicked: %v", perr)
		}
		if err != nil {
			return
		}
		// accepted: must begin with the namespace and a colon and end with :<suffix>:<state>, state = b64url(canonical JSON)
		// and suffix = hash(suffixData). (What stands between namespace and suffix is not the property's business: the
		// library takes did:ion::<suffix>:<state> - false alarms (6) and (11) of DESIGN.md section 6.)
		all := strings.Split(did, ":")
		if len(all) < 4 || !strings.HasPrefix(did, "did:ion:") {
			t.Fatalf("C17 fuzz: accepted a DID of unexpected shape: %q", did)
		}
		parts := []string{"did", "ion", all[len(all)-2], all[len(all)-1]}
		raw, derr := base64.RawURLEncoding.DecodeString(parts[3])
		if derr != nil {
			t.Fatalf("C17 fuzz: accepted non-base64url initial state: %q", did)
		}
		v, jerr := decodeIJSON(raw)
		if jerr != nil {
			t.Fatalf("C17 fuzz: accepted an initial state that is not I-JSON: %q", raw)
		}
		m := v.(map[string]interface{})
		if b64([]byte(refJCS(v))) != parts[3] {
			t.Fatalf("C17 fuzz: accepted a non-canonical initial state: %q", raw)
		}
		if parts[2] != refHash(m["suffixData"], 18) {
			t.Fatalf("C17 fuzz: accepted suffix %q that is not the hash of the suffix data", parts[2])
		}
		if ty, ok := m["type"]; ok && ty != "create" {
			t.Fatalf("C17 fuzz: accepted initial state of type %v", ty)
		}
		if len(all) == 4 && res.ID() != did {
			t.Fatalf("C17 fuzz: resolved id %q for %q", res.ID(), did)
		}
	})
}

// TestC19_Concurrent: the entry points share one parser, applier, handler and VDR (entry registry). Valid and corrupted
// inputs handed over from several goroutines at once are answered; the process survives (an unsynchronised map or a
// shared buffer inside a component ends in "fatal error: concurrent map writes" or an index panic, which no recover() stops).
// withOtherSignature replaces the signature segment of a request's signed data by other bytes of the same length.
func withOtherSignature(req []byte, tag string) []byte {
	const member = `"signedData":"`
	i := bytes.Index(req, []byte(member))
	if i < 0 {
		return req
	}
	start := i + len(member)
	end := bytes.IndexByte(req[start:], '"')
	if end < 0 {
		return req
	}
	jws := string(req[start : start+end])
	dot := strings.LastIndexByte(jws, '.')
	if dot < 0 || dot == len(jws)-1 {
		return req
	}
	sig := []byte(jws[dot+1:])
	const alphabet = "ABCDEFGHIJKLMNOPQRSTUVWXYZabcdefghijklmnopqrstuvwxyz0123456789-_"
	for j := 0; j < len(tag) && j < len(sig)-1; j++ {
		sig[j] = alphabet[int(tag[j])%len(alphabet)]
	}
	out := append([]byte{}, req[:start+dot+1]...)
	out = append(out, sig...)
	return append(out, req[start+end:]...)
}

func TestC19_Concurrent(t *testing.T) {
	st := statsFor("C19")
	entrySetup()
	check(t, "C19", 60, func(t *rapid.T) {
		p := wideProtocol()
		n := rapid.IntRange(2, 8).Draw(t, "goroutines")
		rounds := rapid.IntRange(2, 8).Draw(t, "rounds")
		var inputs [][]byte
		// more inputs than goroutines: every goroutine goes through all of them, starting at its own offset, so that whatever
		// the code keeps per input (caches, pools) is first written while other goroutines write their own entries
		for i, m := 0, rapid.IntRange(n, 16).Draw(t, "inputs"); i < m; i++ {
			typ := rapid.SampledFrom([]string{"update", "recover", "deactivate", "create"}).Draw(t, "opType")
			ctx := &opGenCtx{P: p, Doc: map[string]interface{}{}, Suffix: entrySuffix, Keys: entryKeys(), St: st, Classes: []string{"valid"}, Time: 5, NoIetf: true}
			c := genOpCase(t, typ, ctx)
			raw := c.Build.bytes()
			if rapid.IntRange(0, 3).Draw(t, "corrupt") == 0 {
				v, _ := corruptValue(t, c.Build.Req)
				raw = []byte(refJCS(v))
			}
			inputs = append(inputs, raw)
		}
		journal("ParseRequest", inputs[0])
		distinct := rapid.IntRange(0, 3).Draw(t, "everyCallDistinct") > 0
		errs := make(chan string, n)
		var wg sync.WaitGroup
		var released int32
		for w := 0; w < n; w++ {
			wg.Add(1)
			go func(w int) {
				defer wg.Done()
				for atomic.LoadInt32(&released) == 0 {
					runtime.Gosched()
				}
				for r := 0; r < rounds; r++ {
					for k := range inputs {
						in := inputs[(w+k)%len(inputs)]
						if distinct {
							// every call brings signed data the components have never seen (the signature bytes are not looked at
							// before the applier verifies them): whatever is kept per request is written by every call
							in = withOtherSignature(in, fmt.Sprintf("%d.%d.%d", w, r, k))
						}
						entries := []string{"ParserOnly"}
						if (w+r+k)%4 == 0 {
							entries = []string{"ParserOnly", "ParseRequest", "Bytes"} // the long routes for a quarter of the calls
						}
						for _, entry := range entries {
							if err := callNoPanic(func() { entryPoints()[entry](in) }); err != nil {
								errs <- fmt.Sprintf("entry %s panicked: %v\n input %s", entry, err, clip(string(in), 600))
								return
							}
						}
					}
				}
			}(w)
		}
		atomic.StoreInt32(&released, 1)
		awaitWorkers(t, &wg, "C19 concurrent entry points")
		close(errs)
		for e := range errs {
			t.Fatalf("C19 (with %d goroutines at the same time) %s", n, e)
		}
		st.Case(n >= 3, fmt.Sprint("concurrent|", n, rounds, string(inputs[0])), "target-concurrent")
	})
}
