package harness

// C02 — no state change without a valid signature by the revealed key.
// Oracle: invariant on Apply(tampered, previous state): refused (nil state + error) — or, for a recover/create whose delta
// alone was replaced, exactly the degraded state the reference prescribes; attacker-chosen content never appears.
// Parse-time rules are also checked through the non-batch parser.

import (
	"fmt"
	"math/big"
	"strings"
	"sync"
	"testing"

	"github.com/trustbloc/sidetree-go/pkg/api/protocol"
	"pgregory.net/rapid"
)

var c02Tampers = []string{
	// shared catalogue (see tamperSigned)
	"reveal-other-key", "reveal-malformed", "alg-not-allowed", "alg-missing", "alg-empty", "extra-header", "bad-signature",
	"signed-by-other-key", "payload-changed-not-resigned", "key-missing-member", "jws-two-segments", "jws-bad-base64",
	"payload-not-json", "missing-signed-data", "missing-reveal", "reveal-respelled", "reveal-shortened", "header-duplicate-member", "reveal-edited", "header-not-object", "alg-not-string",
	// C02-specific
	"field-reencoded-not-resigned", "key-substituted-not-resigned", "key-substituted-resigned-reveal-kept", "key-substituted-resigned-reveal-shortened", "key-mirrored-signed-by-original", "delta-protocol-invalid", "alg-other-allowed-not-resigned",
	"header-kid-added-not-resigned", "signature-truncated", "signature-padded", "signature-empty", "segment-base64-padded", "four-segments",
	"signature-of-other-request", "delta-substituted", "delta-substituted", "delta-substituted", "suffix-signed-mismatch",
}

// attackerMarkers are strings that only attacker-chosen content carries.
const attackerMarker = "attacker"

// c02TwinValid holds the validly signed request a "delta-substituted" tamper was derived from when the substitute is a twin
// of the signed delta (nil otherwise): that request must be accepted, or the refusal of the twin shows nothing.
var c02TwinValid []byte

func c02Tamper(t *rapid.T, b *opBuild, class string, p protocol.Protocol, donor *opBuild) ([]byte, bool) {
	switch class {
	case "field-reencoded-not-resigned":
		// every signed-payload field of the type, one at a time, changed to an attacker-chosen value; signature kept
		var fields []string
		switch b.Type {
		case "update":
			fields = []string{"updateKey", "deltaHash", "anchorFrom", "anchorUntil"}
		case "recover":
			fields = []string{"recoveryKey", "deltaHash", "recoveryCommitment", "anchorOrigin", "anchorFrom", "anchorUntil"}
		default:
			fields = []string{"recoveryKey", "didSuffix", "anchorFrom", "anchorUntil"}
		}
		f := rapid.SampledFrom(fields).Draw(t, "field")
		before := refJCS(b.Signed)
		switch f {
		case "updateKey", "recoveryKey":
			b.Signed[f] = otherKey(t, b.SignKey).JWKValue()
		case "deltaHash":
			b.Signed[f] = refHash(map[string]interface{}{"x": attackerMarker}, b.Alg)
		case "recoveryCommitment":
			b.Signed[f] = otherKey(t, b.SignKey).Commitment(b.Alg)
		case "anchorOrigin":
			b.Signed[f] = attackerMarker
		case "didSuffix":
			b.Signed[f] = b.Suffix + "x"
		default:
			old, _ := b.Signed[f].(float64)
			b.Signed[f] = old + 1
		}
		if refJCS(b.Signed) == before {
			b.Signed["zz"] = attackerMarker
		}
		b.replacePayload()
		b.assemble()
	case "key-substituted-not-resigned":
		b.Signed[keyMember(b.Type)] = otherKey(t, b.SignKey).JWKValue()
		b.replacePayload()
		b.assemble()
	case "key-substituted-resigned-reveal-kept":
		reveal := b.Reveal
		o := otherKey(t, b.SignKey)
		b.SignKey = o
		b.Signed[keyMember(b.Type)] = o.JWKValue()
		b.Header["alg"] = o.Type.Alg()
		// the attacker controls every member of the payload they sign: members the schema knows but the operation type does
		// not use may be set to anything convenient
		if rapid.Bool().Draw(t, "extraSignedMembers") {
			b.Signed["revealValue"] = o.Reveal(b.Alg)
			if b.Type != "deactivate" {
				b.Signed["didSuffix"] = b.Suffix
			}
		}
		b.sign()
		b.Reveal = reveal
		b.assemble()
	case "key-substituted-resigned-reveal-shortened":
		// everything consistently the attacker's own, with a reveal value that is a well-formed multihash of a prefix (possibly
		// empty) of the attacker key's digest
		o := otherKey(t, b.SignKey)
		b.Header["alg"] = o.Type.Alg()
		resignWithKey(b, o)
		d := refDigest(b.Alg, []byte(refJCS(o.JWKValue())))
		b.Req["revealValue"] = b64(refMultihashBytes(b.Alg, d[:rapid.SampledFrom([]int{0, 0, 1, 16, len(d) - 1}).Draw(t, "shortLen")]))
	case "key-mirrored-signed-by-original":
		// the key in the signed data replaced by its mirror image (x, p-y) - another key with the same x - together with that
		// key's reveal value; signed (consistently, over the new payload) by the original key
		if b.SignKey.Type == ktEd25519 {
			return nil, false
		}
		mirrored := *b.SignKey
		ec := *b.SignKey.EC
		ec.PublicKey.Y = new(big.Int).Sub(b.SignKey.curve().Params().P, b.SignKey.EC.Y)
		ec.D = new(big.Int).Sub(b.SignKey.curve().Params().N, b.SignKey.EC.D)
		mirrored.EC = &ec
		mirrored.Name = b.SignKey.Name + "-mirrored"
		b.Signed[keyMember(b.Type)] = mirrored.JWKValue()
		b.sign() // by the original key, over the payload that names the mirrored one
		b.Reveal = mirrored.Reveal(b.Alg)
		b.assemble()
	case "delta-protocol-invalid":
		// the delta is the signed one (hash-bound) but not valid under the protocol: an update is refused, a recover is
		// applied without its delta
		if b.Delta == nil {
			return nil, false
		}
		applyDeltaProblem(t, b, rapid.SampledFrom([]string{"delta-invalid-patch", "delta-unknown-action", "delta-empty-patches"}).Draw(t, "deltaProblem"), p)
	case "alg-other-allowed-not-resigned":
		h, pl, s, _ := splitCompact(b.JWS)
		_ = h
		other := rapid.SampledFrom(allSigAlgs).Filter(func(a string) bool { return a != b.Header["alg"] }).Draw(t, "otherAlg")
		b.JWS = compactJWS(headerJSON(map[string]interface{}{"alg": other}), pl, s)
		b.assemble()
	case "header-kid-added-not-resigned":
		_, pl, s, _ := splitCompact(b.JWS)
		b.JWS = compactJWS(headerJSON(map[string]interface{}{"alg": b.Header["alg"], "kid": attackerMarker}), pl, s)
		b.assemble()
	case "signature-truncated":
		h, pl, s, _ := splitCompact(b.JWS)
		b.JWS = compactJWS(string(h), pl, s[:len(s)-rapid.IntRange(1, len(s)-1).Draw(t, "cut")])
		b.assemble()
	case "signature-padded":
		h, pl, s, _ := splitCompact(b.JWS)
		b.JWS = compactJWS(string(h), pl, append(append([]byte{}, s...), rapid.SliceOfN(rapid.Byte(), 1, 3).Draw(t, "pad")...))
		b.assemble()
	case "signature-empty":
		b.JWS = b.JWS[:strings.LastIndexByte(b.JWS, '.')+1]
		b.assemble()
	case "segment-base64-padded":
		seg := strings.Split(b.JWS, ".")
		i := rapid.IntRange(0, 2).Draw(t, "segment")
		seg[i] += "="
		b.JWS = strings.Join(seg, ".")
		b.assemble()
	case "four-segments":
		b.JWS += "." + b64([]byte("x"))
		b.assemble()
	case "signature-of-other-request":
		// signature (and header) of another valid request by the same key over different content
		_, pl, _, _ := splitCompact(b.JWS)
		dh, _, ds, _ := splitCompact(donor.JWS)
		b.JWS = compactJWS(string(dh), pl, ds)
		b.assemble()
	case "delta-substituted":
		if b.Delta == nil {
			return nil, false
		}
		c02TwinValid = nil
		if good, twin, _ := genDeltaTwin(t, p.Patches); good != nil && rapid.IntRange(0, 2).Draw(t, "substituteTwin") > 0 {
			// the holder signs a valid delta; what is sent instead is a twin of it that a normalising parser would make equal
			ps := append([]interface{}{}, b.Delta["patches"].([]interface{})...)
			at := rapid.IntRange(0, len(ps)).Draw(t, "twinAt")
			withPatch := func(x map[string]interface{}) []interface{} {
				return append(append(append([]interface{}{}, ps[:at]...), x), ps[at:]...)
			}
			b.Delta["patches"] = withPatch(good)
			b.Signed["deltaHash"] = refHash(b.Delta, b.Alg)
			b.sign()
			b.assemble()
			c02TwinValid = b.bytes()
			b.Delta["patches"] = withPatch(twin)
			b.assemble()
			break
		}
		b.Delta = map[string]interface{}{"updateCommitment": pool()[ktEd25519][3].Commitment(b.Alg), "patches": []interface{}{
			map[string]interface{}{"action": "replace", "document": map[string]interface{}{"publicKeys": []interface{}{
				map[string]interface{}{"id": attackerMarker, "type": tJWK2020, "publicKeyJwk": docJWK(pool()[ktP256][2])}}}}}}
		b.assemble()
	case "suffix-signed-mismatch":
		if b.Type != "deactivate" {
			return nil, false
		}
		b.Req["didSuffix"] = b.Suffix + "x" // request names another DID than the signed one
	default:
		return tamperSigned(t, b, class, p), true
	}
	return b.bytes(), true
}

func TestC02_Tampering(t *testing.T) {
	st := statsFor("C02")
	check(t, "C02", 1500, func(t *rapid.T) {
		p := genHistoryProtocol(t)
		p.MaxDeltaSize = 20000
		p.MaxOperationSize = 60000
		stack := newStack(p)
		// previous state: a valid create
		cr := genOpCase(t, "create", &opGenCtx{P: p, St: st, NoIetf: true, Classes: []string{"valid"}})
		if strings.Contains(cr.Class, "too-large") {
			st.Exclude("generated delta larger than the maximum delta size")
			return
		}
		suffix := cr.Build.suffixFor(p.MultihashAlgorithms[0])
		m0 := anchorMeta{Time: 5, Canonical: "c0"}
		ref0, _ := refApply(&refModel{}, cr, m0, p)
		lib0, err := stack.Applier.Apply(anchoredBytes("create", cr.Bytes, suffix, m0), &protocol.ResolutionModel{})
		if err != nil {
			t.Fatalf("C02 harness: valid create refused: %v", err)
		}
		typ := rapid.SampledFrom([]string{"update", "recover", "deactivate"}).Draw(t, "opType")
		ctx := &opGenCtx{P: p, Doc: ref0.Doc, Suffix: suffix, Keys: chainKeys{Update: cr.Build.NextUpdate, Recovery: cr.Build.NextRecov},
			St: st, NoIetf: true, Classes: []string{"valid"}, Time: 6}
		c := genOpCase(t, typ, ctx)
		if strings.Contains(c.Class, "too-large") {
			st.Exclude("generated delta larger than the maximum delta size")
			return
		}
		c.Build.From, c.Build.Until = 0, 0
		// the untampered operation is effective (window: none)
		switch typ {
		case "update":
			c.Build = newUpdate(c.Build.Alg, suffix, c.Build.SignKey, c.Build.NextUpdate, c.Patches, 0, 0)
		case "recover":
			c.Build = newRecover(c.Build.Alg, suffix, c.Build.SignKey, c.Build.NextRecov, c.Build.NextUpdate, c.Patches, c.Origin, 0, 0)
		default:
			c.Build = newDeactivate(c.Build.Alg, suffix, c.Build.SignKey, 0, 0)
		}
		c.From, c.Until = 0, 0
		if rapid.IntRange(0, 3).Draw(t, "signedPayloadWithWhiteSpace") == 0 {
			// the holder signed the signed data as a JSON text with insignificant white space in and around it: what is signed is
			// those bytes, and the operation is as valid as the compact one
			ws := func(l string) string { return rapid.SampledFrom([]string{"", "\n", " ", "\r\n", "\t "}).Draw(t, l) }
			canon := refJCS(c.Build.Signed)
			c.Build.signText([]byte(ws("wsBefore") + "{" + ws("wsInside") + canon[1:len(canon)-1] + "}" + ws("wsAfter")))
			c.Build.assemble()
		}
		m := anchorMeta{Time: 6, Number: 1, Canonical: "c1"}
		valid := c.Build.bytes()
		c.Bytes = valid
		wantValid, _ := refApply(ref0, c, m, p)
		got, err := stack.Applier.Apply(anchoredBytes(typ, valid, suffix, m), lib0)
		if err != nil {
			t.Fatalf("C02 harness: valid %s refused: %v", typ, err)
		}
		if cerr := compareModel(got, wantValid, nil, nil); cerr != nil {
			t.Fatalf("C02 harness: valid %s state differs: %v", typ, cerr)
		}

		// donor: another valid request signed by the same key
		var donor *opBuild
		switch typ {
		case "update":
			donor = newUpdate(c.Build.Alg, suffix, c.Build.SignKey, otherKey(t, c.Build.SignKey), []interface{}{
				map[string]interface{}{"action": "add-also-known-as", "uris": []interface{}{"https://donor.example/"}}}, 0, 0)
		case "recover":
			donor = newRecover(c.Build.Alg, suffix, c.Build.SignKey, otherKey(t, c.Build.SignKey), pool()[ktEd25519][5], []interface{}{
				map[string]interface{}{"action": "add-also-known-as", "uris": []interface{}{"https://donor.example/"}}}, nil, 0, 0)
		default:
			donor = newDeactivate(c.Build.Alg, suffix+"y", c.Build.SignKey, 0, 0)
		}

		class := rapid.SampledFrom(c02Tampers).Draw(t, "tamper")
		b := c.Build.clone()
		bad, applicable := c02Tamper(t, b, class, p, donor)
		if !applicable {
			st.Exclude("tamper class does not exist for this operation type")
			return
		}
		if string(bad) == string(valid) {
			t.Fatalf("harness: tamper %s left the request unchanged", class)
		}
		if class == "delta-substituted" && c02TwinValid != nil {
			if vres, verr := stack.Applier.Apply(anchoredBytes(typ, c02TwinValid, suffix, m), lib0); verr != nil || vres == nil {
				t.Fatalf("C02 validly signed %s (the request a twin delta was derived from) refused: %v\n%s", typ, verr, c02TwinValid)
			}
		}
		res, aerr := stack.Applier.Apply(anchoredBytes(typ, bad, suffix, m), lib0)
		desc := fmt.Sprintf("%s / %s\n tampered=%s\n valid=   %s", typ, class, clip(string(bad), 2500), clip(string(valid), 2500))
		deltaOnly := class == "delta-substituted" || class == "delta-protocol-invalid"
		switch {
		case deltaOnly && typ == "recover":
			// signature valid, delta not bound: degraded state with the *signed* recovery commitment, empty document
			cc := *c
			cc.Outcome = outNoDelta
			want, _ := refApply(ref0, &cc, m, p)
			if aerr != nil {
				t.Fatalf("C02 recover with substituted delta was refused instead of applied with an empty document: %v\n%s", aerr, desc)
			}
			if cerr := compareModel(res, want, nil, nil); cerr != nil {
				t.Fatalf("C02 recover with substituted delta: %v\n%s", cerr, desc)
			}
			// the degraded state belongs to the holder of the next recovery key: their correctly signed deactivate applies to it
			follow := newDeactivate(c.Build.Alg, suffix, c.Build.NextRecov, 0, 0)
			m2 := anchorMeta{Time: m.Time + 1, Number: m.Number + 1, Canonical: "c-follow"}
			fres, ferr := stack.Applier.Apply(anchoredBytes("deactivate", follow.bytes(), suffix, m2), res)
			if ferr != nil || fres == nil || !fres.Deactivated {
				t.Fatalf("C02 after a recover with substituted delta the holder's deactivate is refused: %v\n%s", ferr, desc)
			}
		default:
			if aerr == nil || res != nil {
				t.Fatalf("C02 tampered operation changed the state (err=%v)\n%s\n state=%s", aerr, desc, docCanon(resDoc(res)))
			}
		}
		if res != nil && strings.Contains(docCanon(res.Doc)+res.UpdateCommitment+res.RecoveryCommitment+originCanon(res.AnchorOrigin), attackerMarker) {
			t.Fatalf("C02 attacker-chosen content installed\n%s", desc)
		}
		// parse-time rules are enforced on not-yet-anchored requests as well
		if _, perr := stack.Parser.Parse("did:sidetree", bad); perr == nil {
			switch class {
			case "bad-signature", "signed-by-other-key", "payload-changed-not-resigned", "field-reencoded-not-resigned", "key-substituted-not-resigned",
				"alg-other-allowed-not-resigned", "header-kid-added-not-resigned", "signature-truncated", "signature-padded", "signature-of-other-request",
				"key-mirrored-signed-by-original":
				// signature verification is the applier's step: the parser may accept these
			case "delta-substituted":
				// delta/hash binding of update and recover is the applier's step as well
			default:
				t.Fatalf("C02 parser accepted a request violating a parse-time rule\n%s", desc)
			}
		}
		stillJSON := false
		if _, derr := decodeIJSON(bad); derr == nil {
			stillJSON = true
		}
		st.Case(stillJSON, typ+"|"+class+"|"+string(bad), "type-"+typ, "tamper-"+class, "signer-"+c.Build.SignKey.Type.String())
		st.Sample(typ+"/"+class, 1, func() interface{} {
			return map[string]interface{}{"type": typ, "tamper": class, "request": clip(string(bad), 1500)}
		})
	})
}

func resDoc(r *protocol.ResolutionModel) interface{} {
	if r == nil {
		return nil
	}
	return r.Doc
}

// TestC02_SignatureBitScan flips every bit of the signature of one operation per (operation type, key type).
func TestC02_SignatureBitScan(t *testing.T) {
	st := statsFor("C02")
	p := wideProtocol()
	stack := newStack(p)
	si, sn := shard()
	n := 0
	for _, kt := range allKeyTypes {
		for _, typ := range []string{"update", "recover", "deactivate"} {
			n++
			if thorough() && n%sn != si%sn {
				continue
			}
			keys := pool()[kt]
			signer := keys[len(keys)-1].WithNonce(b64(make([]byte, 16)))
			rec, upd := signer, signer
			cr := newCreate(18, rec, keys[1], []interface{}{map[string]interface{}{"action": "add-also-known-as", "uris": []interface{}{"https://a.example/"}}}, nil, "")
			if typ == "update" {
				cr = newCreate(18, keys[1], upd, cr.Patches, nil, "")
			}
			suffix := cr.suffixFor(18)
			lib0, err := stack.Applier.Apply(anchoredBytes("create", cr.bytes(), suffix, anchorMeta{Time: 1}), &protocol.ResolutionModel{})
			if err != nil {
				t.Fatal(err)
			}
			var b *opBuild
			patches := []interface{}{map[string]interface{}{"action": "add-also-known-as", "uris": []interface{}{"https://b.example/"}}}
			switch typ {
			case "update":
				b = newUpdate(18, suffix, signer, keys[2], patches, 0, 0)
			case "recover":
				b = newRecover(18, suffix, signer, keys[2], keys[3], patches, nil, 0, 0)
			default:
				b = newDeactivate(18, suffix, signer, 0, 0)
			}
			if _, err := stack.Applier.Apply(anchoredBytes(typ, b.bytes(), suffix, anchorMeta{Time: 2}), lib0); err != nil {
				t.Fatalf("C02 scan harness: valid %s/%s refused: %v", typ, kt, err)
			}
			h, pl, s, _ := splitCompact(b.JWS)
			step := 1
			if !thorough() && len(s) > 64 {
				step = 3 // quick: every third bit for the long signatures
			}
			for bit := 0; bit < len(s)*8; bit += step {
				s2 := append([]byte{}, s...)
				s2[bit/8] ^= 1 << (bit % 8)
				c := b.clone()
				c.JWS = compactJWS(string(h), pl, s2)
				c.assemble()
				res, err := stack.Applier.Apply(anchoredBytes(typ, c.bytes(), suffix, anchorMeta{Time: 2}), lib0)
				if err == nil || res != nil {
					t.Fatalf("C02 %s signed with %s: flipping signature bit %d still changes the state", typ, kt, bit)
				}
				st.Case(true, fmt.Sprintf("scan|%s|%s|%d", typ, kt, bit), "sigscan-"+kt.String())
			}
		}
	}
}

// TestC02_Concurrent: correctly signed operations change the state also when many of them are verified at the same
// time by one applier (all signers of one key type, so that per-curve state is what they share).
func TestC02_Concurrent(t *testing.T) {
	st := statsFor("C02")
	check(t, "C02", 30, func(t *rapid.T) {
		p := wideProtocol()
		stack := newStack(p)
		kt := genKeyType(t, "kt")
		n := rapid.IntRange(2, 8).Draw(t, "goroutines")
		rounds := rapid.IntRange(3, 15).Draw(t, "rounds")
		type job struct {
			prev   *protocol.ResolutionModel
			op     []byte
			suffix string
			next   string
		}
		jobs := make([]job, n)
		for i := range jobs {
			upd := genKeyOf(t, kt, "update").WithNonce(genNonce(t, int(p.NonceSize), "nonce"))
			rec := otherKey(t, upd)
			// a long kid keeps the verifier busy hashing (the protected header is part of the signing input)
			cr := newCreate(18, rec, upd, []interface{}{map[string]interface{}{"action": "add-also-known-as", "uris": []interface{}{fmt.Sprintf("https://c02.example/%d", i)}}}, nil, "")
			suffix := cr.suffixFor(p.MultihashAlgorithms[0])
			prev, err := stack.Applier.Apply(anchoredBytes("create", cr.bytes(), suffix, anchorMeta{Time: 1, Canonical: "c"}), &protocol.ResolutionModel{})
			if err != nil {
				t.Fatalf("C02 harness: create refused: %v", err)
			}
			next := otherKey(t, upd)
			b := newUpdate(18, suffix, upd, next, []interface{}{map[string]interface{}{"action": "add-also-known-as", "uris": []interface{}{"https://c02.example/updated"}}}, 0, 0)
			b.Header["kid"] = strings.Repeat("k", rapid.IntRange(1, 2000).Draw(t, "kidLen"))
			b.sign()
			b.assemble()
			jobs[i] = job{prev, b.bytes(), suffix, next.Commitment(18)}
		}
		errs := make(chan string, n)
		var wg sync.WaitGroup
		for i := range jobs {
			wg.Add(1)
			go func(j job) {
				defer wg.Done()
				defer func() {
					if r := recover(); r != nil {
						errs <- fmt.Sprintf("panic while applying: %v", r)
					}
				}()
				for r := 0; r < rounds; r++ {
					res, err := stack.Applier.Apply(anchoredBytes("update", j.op, j.suffix, anchorMeta{Time: 2, Canonical: "d"}), j.prev)
					if err != nil || res == nil || res.UpdateCommitment != j.next {
						errs <- fmt.Sprintf("correctly signed update refused or not applied: %v", err)
						return
					}
				}
			}(jobs[i])
		}
		awaitWorkers(t, &wg, "C02 concurrent signature verification in the applier")
		close(errs)
		for e := range errs {
			t.Fatalf("C02 (with %d goroutines at the same time, %s keys) %s", n, kt, e)
		}
		st.Case(n >= 3, fmt.Sprint("concurrent|", kt, n, rounds, jobs[0].suffix), "concurrent", "concurrent-"+kt.String())
	})
}
