package harness

// C03 — DIDs are self-certifying: suffix = hash(suffix data), delta bound by hash.
// Oracle: refHash of the suffix data under the first configured algorithm; metamorphic relations — a re-serialization
// denotes the same DID, a single-field modification changes the DID or is rejected, a delta change is rejected outside batch mode.

import (
	"fmt"
	"sync"
	"testing"

	"github.com/trustbloc/sidetree-go/pkg/api/protocol"
	"pgregory.net/rapid"
)

func genC03Origin(t *rapid.T) interface{} {
	switch rapid.IntRange(0, 6).Draw(t, "originKind") {
	case 0:
		return nil
	case 1:
		return "https://anchor.example/services/orb"
	case 2:
		return map[string]interface{}{"url": "https://o.example", "n": float64(2), "weights": []interface{}{1e21, 0.5, float64(1 << 60), 9007199254740993.0}}
	case 3:
		return map[string]interface{}{"€": "x", "\U0001f600": "y", "דּ": float64(9223372036854775808), "a": 1e-7}
	case 4:
		return []interface{}{"a", float64(18446744073709551615), -0.0}
	default:
		return genValueTree(t, 1, 3, 3, &valueInfo{})
	}
}

func TestC03_SelfCertifying(t *testing.T) {
	st := statsFor("C03")
	check(t, "C03", 1500, func(t *rapid.T) {
		p := wideProtocol()
		configured := rapid.SampledFrom([][]uint{{18}, {19}, {18, 19}, {19, 18}}).Draw(t, "hashAlgs")
		p.MultihashAlgorithms = append([]uint{}, configured...) // the stack gets its own list: what it does to it is not what was configured
		stack := newStack(p)
		p.MultihashAlgorithms = append([]uint{}, configured...)
		alg := genAlgFor(t, p)
		ns := rapid.SampledFrom([]string{"did:sidetree", "did:ion", "did:x:y:z"}).Draw(t, "namespace")
		rec, upd := genNoncedKey(t, p, "recovery"), genNoncedKey(t, p, "update")
		if rec.Commitment(alg) == upd.Commitment(alg) {
			upd = otherKey(t, rec)
		}
		patches, _ := genOpPatches(t, map[string]interface{}{}, true, st)
		origin := genC03Origin(t)
		b := newCreate(alg, rec, upd, patches, origin, rapid.SampledFrom([]string{"", "", "0001", "type-x"}).Draw(t, "suffixType"))
		wantSuffix := b.suffixFor(p.MultihashAlgorithms[0])
		labels := []string{fmt.Sprintf("algs-%v", p.MultihashAlgorithms), fmt.Sprintf("request-alg-%d", alg)}

		op, err := stack.Parser.Parse(ns, b.bytes())
		if err != nil {
			t.Fatalf("C03 valid create refused: %v\n%s", err, b.bytes())
		}
		if op.UniqueSuffix != wantSuffix {
			t.Fatalf("C03 unique suffix %q is not the multihash (first algorithm %d) of the canonical suffix data %q\n suffixData=%s",
				op.UniqueSuffix, p.MultihashAlgorithms[0], wantSuffix, refJCS(b.SuffixData))
		}
		if op.ID != ns+":"+wantSuffix {
			t.Fatalf("C03 id %q want %q", op.ID, ns+":"+wantSuffix)
		}

		// (a) re-serializations denote the same DID
		for i := 0; i < 2; i++ {
			sp := spell(t, b.Req, 1)
			op2, err := stack.Parser.Parse(ns, []byte(sp))
			if err != nil {
				t.Fatalf("C03 re-serialized create refused: %v\n%s", err, sp)
			}
			if op2.UniqueSuffix != wantSuffix || op2.ID != op.ID {
				t.Fatalf("C03 re-serialization changed the DID: %q vs %q\n%s", op2.ID, op.ID, sp)
			}
			// ... also when the spelling is exactly as long as the largest operation the protocol allows
			exact := p
			exact.MaxOperationSize = uint(len(sp))
			if op3, err := newStack(exact).Parser.Parse(ns, []byte(sp)); err != nil || op3.ID != op.ID {
				t.Fatalf("C03 re-serialized create of exactly the maximum operation size (%d bytes) does not denote the same DID: %v", len(sp), err)
			}
		}

		// (b) single known-field modification
		m := b.clone()
		mod := rapid.IntRange(0, 13).Draw(t, "modification")
		label := ""
		deltaChange := false
		switch mod {
		case 0:
			m.SuffixData["recoveryCommitment"] = otherKey(t, rec).Commitment(alg)
			label = "suffix-recovery-commitment"
		case 1:
			m.SuffixData["deltaHash"] = refHash(map[string]interface{}{"other": "delta"}, alg)
			label = "suffix-delta-hash"
		case 2:
			if origin == nil {
				m.SuffixData["anchorOrigin"] = "added-origin"
			} else {
				v, how := mutateValue(t, map[string]interface{}{"o": origin})
				m.SuffixData["anchorOrigin"] = v.(map[string]interface{})["o"]
				label = "(" + how + ")"
				if v.(map[string]interface{})["o"] == nil {
					delete(m.SuffixData, "anchorOrigin")
				}
			}
			label = "suffix-anchor-origin" + label
		case 3:
			if m.SuffixData["type"] == nil {
				m.SuffixData["type"] = "t"
			} else {
				m.SuffixData["type"] = m.SuffixData["type"].(string) + "x"
			}
			label = "suffix-type"
		case 4:
			m.Delta["updateCommitment"] = otherKey(t, upd).Commitment(alg)
			label, deltaChange = "delta-update-commitment", true
		case 5:
			v, how := mutateValue(t, m.Delta["patches"])
			m.Delta["patches"] = v
			label, deltaChange = "delta-patches("+how+")", true
		case 6:
			m.Delta["patches"] = append(append([]interface{}{}, m.Delta["patches"].([]interface{})...),
				map[string]interface{}{"action": "add-also-known-as", "uris": []interface{}{"https://added.example/"}})
			label, deltaChange = "delta-patch-added", true
		case 7:
			ps := m.Delta["patches"].([]interface{})
			if len(ps) < 2 {
				m.Delta["patches"] = []interface{}{map[string]interface{}{"action": "add-also-known-as", "uris": []interface{}{"https://only.example/"}}}
			} else {
				m.Delta["patches"] = ps[1:]
			}
			label, deltaChange = "delta-patch-removed", true
		case 13:
			// the recorded hash is that of a valid delta, the delta sent is a twin of it (what a parser that normalises while
			// validating - filters nulls, drops duplicates, sorts, converts numbers - would make equal): another delta
			good, twin, how := genDeltaTwin(t, p.Patches)
			if good == nil {
				m.Delta["updateCommitment"] = otherKey(t, upd).Commitment(alg)
				label, deltaChange = "delta-update-commitment", true
				break
			}
			ps := append([]interface{}{}, m.Delta["patches"].([]interface{})...)
			at := rapid.IntRange(0, len(ps)).Draw(t, "twinAt")
			withPatch := func(x map[string]interface{}) []interface{} {
				return append(append(append([]interface{}{}, ps[:at]...), x), ps[at:]...)
			}
			m.Delta["patches"] = withPatch(good)
			m.SuffixData["deltaHash"] = refHash(m.Delta, alg)
			m.assemble()
			if _, err := stack.Parser.Parse(ns, m.bytes()); err != nil {
				t.Fatalf("C03 valid create (twin kind %s) refused: %v\n%s", how, err, m.bytes())
			}
			m.Delta["patches"] = withPatch(twin)
			label, deltaChange = "delta-twin("+how+")", true
		case 10:
			// the recorded delta hash re-spelled so that it decodes to the same bytes: it is no longer the hash of the delta
			h := m.SuffixData["deltaHash"].(string)
			alt := nonCanonicalTail(h)
			if alt == h { // sha2-512 hashes have no spare bits: change the digest instead
				alt = refHash(map[string]interface{}{"other": "delta"}, alg)
			}
			m.SuffixData["deltaHash"] = alt
			label, deltaChange = "suffix-delta-hash-respelled", true
		case 12:
			// a well-formed multihash of the right algorithm over a prefix (possibly empty) of the delta's digest
			d := refDigest(alg, []byte(refJCS(m.Delta)))
			m.SuffixData["deltaHash"] = b64(refMultihashBytes(alg, d[:rapid.SampledFrom([]int{0, 0, 1, 4, 16, len(d) - 1}).Draw(t, "shortLen")]))
			label, deltaChange = "suffix-delta-hash-shortened", true
		case 11:
			// exactly one string is the hash of the delta: every edit of it is not
			how := ""
			m.SuffixData["deltaHash"], how = editString(t, m.SuffixData["deltaHash"].(string))
			label, deltaChange = "suffix-delta-hash-edited("+how+")", true
		case 8:
			// same commitments hashed with the other algorithm (suffix data changes in two fields at once: still a modification)
			o := uint(37) - alg
			m.SuffixData["recoveryCommitment"] = rec.Commitment(o)
			label = "suffix-recovery-commitment-other-alg"
		default:
			// respell a URI inside an also-known-as patch (equal after URL normalisation, different as JSON)
			m.Delta["patches"] = append(append([]interface{}{}, m.Delta["patches"].([]interface{})...),
				map[string]interface{}{"action": "add-also-known-as", "uris": []interface{}{"HTTP://Respelled.example/a b"}})
			h := refHash(m.Delta, alg)
			m.SuffixData["deltaHash"] = h
			m.assemble()
			// this one is a *valid* different request: must be accepted with its own suffix, and then the URI respelled again
			op3, err := stack.Parser.Parse(ns, m.bytes())
			if err != nil {
				t.Fatalf("C03 valid create with an unnormalised URI refused: %v", err)
			}
			if op3.UniqueSuffix != m.suffixFor(p.MultihashAlgorithms[0]) {
				t.Fatalf("C03 suffix of create with unnormalised URI: %q", op3.UniqueSuffix)
			}
			ps := m.Delta["patches"].([]interface{})
			ps[len(ps)-1] = map[string]interface{}{"action": "add-also-known-as", "uris": []interface{}{"http://Respelled.example/a%20b"}}
			label, deltaChange = "delta-uri-respelled", true
		}
		m.assemble()
		if refJCS(m.Req) == refJCS(b.Req) {
			t.Fatalf("harness: modification %s did not change the request", label)
		}
		op4, perr := stack.Parser.Parse(ns, m.bytes())
		switch {
		case perr != nil:
			labels = append(labels, "modified-rejected")
		case deltaChange:
			t.Fatalf("C03 create with a changed delta (%s) accepted outside batch mode with id %s\n%s", label, op4.ID, m.bytes())
		case op4.UniqueSuffix == wantSuffix:
			t.Fatalf("C03 modification of the suffix data (%s) kept the DID %s\n%s", label, op4.ID, m.bytes())
		default:
			if op4.UniqueSuffix != m.suffixFor(p.MultihashAlgorithms[0]) {
				t.Fatalf("C03 modified request accepted with a suffix that is not the hash of its suffix data")
			}
			labels = append(labels, "modified-other-did")
		}
		// batch mode never accepts the same DID for different suffix data either
		if !deltaChange {
			if mo, berr := stack.Parser.ParseOperation(ns, m.bytes(), true); berr == nil && mo.UniqueSuffix == wantSuffix {
				t.Fatalf("C03 (batch) modification %s kept the DID", label)
			}
		}
		labels = append(labels, "mod-"+label)
		st.Case(true, string(b.bytes())+"|"+label, labels...)
		st.Sample("create", 3, func() interface{} {
			return map[string]interface{}{"request": mustJSON(string(b.bytes())), "did": op.ID, "modification": label}
		})
	})
}

var _ = protocol.Protocol{}

// TestC03_Concurrent: the DID of a create request is the hash of its suffix data also when many requests are parsed at
// the same time, by one shared parser or by several (expected suffixes come from the harness' own hashing).
func TestC03_Concurrent(t *testing.T) {
	st := statsFor("C03")
	check(t, "C03", 25, func(t *rapid.T) {
		p := wideProtocol()
		shared := newStack(p)
		n := rapid.IntRange(2, 8).Draw(t, "goroutines")
		rounds := rapid.IntRange(5, 30).Draw(t, "rounds")
		type job struct {
			raw    []byte
			suffix string
			parser *libStack
		}
		jobs := make([]job, n)
		for i := range jobs {
			rec, upd := genNoncedKey(t, p, "recovery"), genNoncedKey(t, p, "update")
			if rec.Commitment(18) == upd.Commitment(18) {
				upd = otherKey(t, rec)
			}
			patches, _ := genOpPatches(t, map[string]interface{}{}, true, st)
			b := newCreate(18, rec, upd, patches, genC03Origin(t), "")
			jobs[i] = job{b.bytes(), b.suffixFor(p.MultihashAlgorithms[0]), shared}
			if rapid.Bool().Draw(t, "ownParser") {
				jobs[i].parser = newStack(p)
			}
		}
		errs := make(chan string, n)
		var wg sync.WaitGroup
		for i := range jobs {
			wg.Add(1)
			go func(j job) {
				defer wg.Done()
				for r := 0; r < rounds; r++ {
					op, err := j.parser.Parser.Parse("did:sidetree", j.raw)
					if err != nil {
						errs <- fmt.Sprintf("valid create refused: %v", err)
						return
					}
					if op.UniqueSuffix != j.suffix {
						errs <- fmt.Sprintf("unique suffix %q is not the hash of the suffix data (%q)", op.UniqueSuffix, j.suffix)
						return
					}
				}
			}(jobs[i])
		}
		awaitWorkers(t, &wg, "C03 concurrent parsing of create requests")
		close(errs)
		for e := range errs {
			t.Fatalf("C03 (with %d goroutines at the same time) %s", n, e)
		}
		st.Case(n >= 4, fmt.Sprint("concurrent|", n, rounds, jobs[0].suffix), "concurrent", fmt.Sprintf("goroutines-%d", n))
	})
}
