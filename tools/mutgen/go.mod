module verif/tools/mutgen

go 1.23
