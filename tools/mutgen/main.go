// mutgen lists and produces simple source-level mutants of one Go file (standard library only).
//
//	mutgen list <file.go>            -> JSON list of {index, line, col, op, detail}
//	mutgen apply <file.go> <index>   -> mutated source on stdout
//
// Operators: comparison boundary / negation, && <-> ||, + <-> -, removal of '!', condition of an if forced to false
// (the guarded block is skipped), small integer literal + 1, true <-> false.
package main

import (
	"bytes"
	"encoding/json"
	"fmt"
	"go/ast"
	"go/parser"
	"go/printer"
	"go/token"
	"os"
	"strconv"
)

type mutant struct {
	Index  int    `json:"index"`
	Line   int    `json:"line"`
	Col    int    `json:"col"`
	Op     string `json:"op"`
	Detail string `json:"detail"`
}

var binSwaps = map[token.Token][]token.Token{
	token.EQL: {token.NEQ}, token.NEQ: {token.EQL},
	token.LSS: {token.LEQ, token.GEQ}, token.LEQ: {token.LSS, token.GTR},
	token.GTR: {token.GEQ, token.LEQ}, token.GEQ: {token.GTR, token.LSS},
	token.LAND: {token.LOR}, token.LOR: {token.LAND},
	token.ADD: {token.SUB}, token.SUB: {token.ADD},
}

// visit walks the file in a fixed order and calls f for every mutation site; f returns true to apply the mutation.
func visit(fset *token.FileSet, file *ast.File, f func(m mutant) bool) {
	idx := 0
	emit := func(pos token.Pos, op, detail string) bool {
		p := fset.Position(pos)
		m := mutant{Index: idx, Line: p.Line, Col: p.Column, Op: op, Detail: detail}
		idx++
		return f(m)
	}
	ast.Inspect(file, func(n ast.Node) bool {
		switch x := n.(type) {
		case *ast.GenDecl:
			if x.Tok == token.IMPORT || x.Tok == token.CONST && false {
				return false
			}
		case *ast.BinaryExpr:
			if x.Op == token.ADD {
				// string concatenation cannot become a subtraction: only mutate when an operand is a number literal or len()
				if !numeric(x.X) && !numeric(x.Y) {
					break
				}
			}
			for _, to := range binSwaps[x.Op] {
				if emit(x.OpPos, "binary", x.Op.String()+" -> "+to.String()) {
					x.Op = to
				}
			}
		case *ast.UnaryExpr:
			if x.Op == token.NOT {
				if emit(x.OpPos, "unary", "remove !") {
					x.Op = token.ADD // placeholder replaced below
					*x = ast.UnaryExpr{OpPos: x.OpPos, Op: token.ILLEGAL, X: x.X}
				}
			}
		case *ast.IfStmt:
			if emit(x.Cond.Pos(), "if-false", "condition forced to false") {
				x.Cond = &ast.BinaryExpr{X: &ast.ParenExpr{X: x.Cond}, Op: token.LAND, Y: ast.NewIdent("false")}
			}
		case *ast.BasicLit:
			if x.Kind == token.INT {
				if v, err := strconv.ParseInt(x.Value, 0, 64); err == nil && v >= 0 && v <= 64 {
					if emit(x.ValuePos, "int", fmt.Sprintf("%d -> %d", v, v+1)) {
						x.Value = strconv.FormatInt(v+1, 10)
					}
				}
			}
		case *ast.Ident:
			if x.Name == "true" || x.Name == "false" {
				if emit(x.NamePos, "bool", x.Name+" flipped") {
					if x.Name == "true" {
						x.Name = "false"
					} else {
						x.Name = "true"
					}
				}
			}
		}
		return true
	})
}

func numeric(e ast.Expr) bool {
	switch x := e.(type) {
	case *ast.BasicLit:
		return x.Kind == token.INT || x.Kind == token.FLOAT
	case *ast.CallExpr:
		if id, ok := x.Fun.(*ast.Ident); ok {
			switch id.Name {
			case "len", "cap", "int", "int64", "uint", "uint64":
				return true
			}
		}
	case *ast.ParenExpr:
		return numeric(x.X)
	case *ast.BinaryExpr:
		return numeric(x.X) || numeric(x.Y)
	}
	return false
}

// fixNot removes the placeholder unary expressions (Op == ILLEGAL) by replacing them with their operand.
func fixNot(file *ast.File) {
	ast.Inspect(file, func(n ast.Node) bool {
		// replace in every place an expression can sit that we care about
		switch x := n.(type) {
		case *ast.IfStmt:
			x.Cond = strip(x.Cond)
		case *ast.BinaryExpr:
			x.X, x.Y = strip(x.X), strip(x.Y)
		case *ast.ParenExpr:
			x.X = strip(x.X)
		case *ast.ReturnStmt:
			for i := range x.Results {
				x.Results[i] = strip(x.Results[i])
			}
		case *ast.AssignStmt:
			for i := range x.Rhs {
				x.Rhs[i] = strip(x.Rhs[i])
			}
		case *ast.CallExpr:
			for i := range x.Args {
				x.Args[i] = strip(x.Args[i])
			}
		case *ast.ForStmt:
			if x.Cond != nil {
				x.Cond = strip(x.Cond)
			}
		case *ast.UnaryExpr:
			x.X = strip(x.X)
		}
		return true
	})
}

func strip(e ast.Expr) ast.Expr {
	if u, ok := e.(*ast.UnaryExpr); ok && u.Op == token.ILLEGAL {
		return u.X
	}
	return e
}

func main() {
	if len(os.Args) < 3 {
		fmt.Fprintln(os.Stderr, "usage: mutgen list|apply file [index]")
		os.Exit(2)
	}
	fset := token.NewFileSet()
	file, err := parser.ParseFile(fset, os.Args[2], nil, parser.ParseComments)
	if err != nil {
		fmt.Fprintln(os.Stderr, err)
		os.Exit(2)
	}
	switch os.Args[1] {
	case "list":
		var all []mutant
		visit(fset, file, func(m mutant) bool { all = append(all, m); return false })
		_ = json.NewEncoder(os.Stdout).Encode(all)
	case "apply":
		want, _ := strconv.Atoi(os.Args[3])
		visit(fset, file, func(m mutant) bool { return m.Index == want })
		fixNot(file)
		var buf bytes.Buffer
		if err := printer.Fprint(&buf, fset, file); err != nil {
			fmt.Fprintln(os.Stderr, err)
			os.Exit(2)
		}
		os.Stdout.Write(buf.Bytes())
	}
}
