# Per-property configuration of the checks (tests to run, budgets, evidence rule text).
# quick: one process; thorough: shards x larger scale (+ native fuzz targets where listed).

PROPS = {
    "C05": {
        "tests": "^TestC05_",
        "quick": {"scale": 1.0, "timeout": 600},
        "thorough": {"scale": 12.0, "shards": 16, "timeout": 3000, "fuzz": [("FuzzC05", 120)]},
        "rule": "rapid-generated I-JSON trees (strings over all Unicode scalar values with boosted control/surrogate-adjacent/"
                "astral classes, numbers from raw IEEE-754 bits and boundary families, depth<=5/9) serialized in 3 surface "
                "spellings each plus the Go-value path, and batches of doubles as [x]; oracle = independent RFC 8785 serializer "
                "(refJCS/refES6) + fixed point + encoding/json round trip. Non-trivial tree: member names whose UTF-16 order "
                "differs from code-point order, control/astral/BMP>=U+E000 characters, boundary/threshold/big-integer numbers, or a "
                "multi-member object whose input spelling differs from the canonical form; non-trivial number: magnitude in a "
                "notation-threshold decade or an integer >= 1e11. Distinct = distinct canonical output.",
        "technique": "property-based testing (rapid) against an independent RFC 8785 / ECMAScript number reference; native coverage-guided fuzzing in thorough",
        "level_text": "Randomised exploration: every generated I-JSON value, in several surface spellings, must canonicalize to the byte string an independent RFC 8785 serializer produces; hundreds of thousands of doubles per quick run. Sampling, not proof: the float/Unicode spaces are not enumerable.",
        "level_note": "Trusts the harness reference serializer (strconv shortest digits + ES6 notation rules, UTF-16 key order) and encoding/json as the I-JSON reader.",
        "assumptions": ["input is I-JSON (no duplicate names, no lone surrogates, finite numbers); other input only has to be "
                        "answered without a panic (C19)", "inputs <= 64 KiB"],
    },
}

PROPS.update({
    "C06": {
        "tests": "^TestC06_",
        "quick": {"scale": 1.0, "timeout": 600},
        "thorough": {"scale": 40.0, "shards": 16, "timeout": 1500, "fuzz": [("FuzzC06", 60)]},
        "rule": "rapid-generated JSON trees x {sha2-256, sha2-512}: hash compared with the harness' own JCS+SHA-2+multihash+base64url "
                "(refHash); a re-spelling must validate, a single-point modification (leaf change, member/element added) must not; the "
                "other algorithm's hash validates by its own prefix, a mislabelled digest does not; one unsupported code and one malformed "
                "encoding (empty, truncated, extended, padded, foreign characters, length field +-1, changed digest character, "
                "non-canonical final character) per case. Every case is non-trivial (it contains an equal-but-respelled value, a "
                "modified value and a malformed hash); distinct = distinct (hash, modification, malformed kind).",
        "technique": "property-based testing (rapid) with an independent multihash reference and by-construction verdicts; native fuzzing in thorough",
        "level_text": "Randomised exploration against an independent reference implementation of the hash construction; equal/unequal verdicts are known by construction of the generated pair.",
        "level_note": "Trusts crypto/sha256, crypto/sha512, encoding/base64 of the Go standard library and the harness' JCS reference (checked itself by C05).",
        "assumptions": ["'well-formed encoded multihash' is taken structurally (varint code, varint length equal to the remaining bytes, url-safe unpadded alphabet); a non-canonical final base64 character must fail validation but need not be rejected by GetMultihashCode"],
    },
    "C15": {
        "tests": "^TestC15_",
        "quick": {"scale": 1.0, "timeout": 600},
        "thorough": {"scale": 24.0, "shards": 16, "timeout": 1500},
        "rule": "rapid: key from a deterministic pool of all five key types (incl. keys with leading-zero coordinates) x payload "
                "(1 B..4 KiB or canonical JSON) x kid; JWS made by the library signers (3/4) or by the harness with fixed-width r||s and "
                "optionally a leading-zero half (1/4); must verify, return the payload, and verify with crypto/ecdsa / crypto/ed25519 over "
                "the transmitted header.payload; then one of 12 tamperings (payload bit, signature bit, header alg/kid/extra member, "
                "other key, signature length +-1, stripped/extra zero, segment split, bad base64, unsupported key, JSON serialization) must "
                "fail. Plus an exhaustive single-bit scan of payload and signature of one JWS per key type (every pool key in thorough). "
                "Non-trivial: P-521, a leading-zero signature half, or a tampered JWS that still splits into three decodable segments; "
                "distinct by (jws, tamper).",
        "technique": "property-based testing (rapid): sign/verify round trip, differential against the Go standard library, by-construction tamper verdicts, exhaustive bit scan",
        "level_text": "Randomised exploration plus an exhaustive bit-flip scan of sample signatures; cryptographic spaces are sampled, not enumerated.",
        "level_note": "Trusts crypto/ecdsa, crypto/ed25519, btcec curve parameters. The library's ecsigner draws its nonce from crypto/rand (verdicts do not depend on it).",
        "assumptions": ["payloads are non-empty (an empty compact payload means 'detached' and is refused)", "header changes are changes of decoded content; ECDSA (r, n-s) malleability is outside 'single-bit change'"],
    },
    "C16": {
        "tests": "^TestC16_",
        "quick": {"scale": 4.0, "timeout": 600},
        "thorough": {"scale": 200.0, "shards": 16, "timeout": 3600},
        "rule": "rapid: pool keys of all five types (searched keys with a leading zero byte in x and in y for every curve, over-weighted) "
                "and fresh keys from drawn scalars/seeds; GetPublicKeyJWK must equal the harness' fixed-width encoding, read back to the "
                "same key, and give refHash commitments / reveal values; then one modification (last-bit / random-bit change, shortened, "
                "extended, extra or stripped leading byte, other or unsupported curve name, swapped coordinates) must be rejected. "
                "Non-trivial: key with a leading-zero coordinate, or a modification that must be rejected; distinct by (key, modification).",
        "technique": "property-based testing (rapid) with a fixed-width reference encoding and by-construction rejection verdicts",
        "level_text": "Randomised exploration over a key pool built to contain the rare leading-zero coordinates for every curve; the run is inconclusive if a curve lacks such a key.",
        "level_note": "Trusts math/big FillBytes and the curve implementations (crypto/elliptic, btcec) used to derive public points.",
        "assumptions": ["bit changes of an Ed25519 public key are not 'off-curve' at this layer (any 32 bytes are accepted as an encoding); wrong width is rejected for all types"],
    },
    "C10": {
        "tests": "^TestC10_",
        "quick": {"scale": 1.0, "timeout": 900},
        "thorough": {"scale": 60.0, "shards": 16, "timeout": 3000},
        "rule": "rapid: well-formed start document (0-4 keys, 0-3 services, also-known-as, other members; ids from a small alphabet so that "
                "collisions are frequent) and 1-7 validated patches over all eight actions; ietf-json-patch operations are drawn over "
                "existing / fresh / junk pointers and kept when RFC 6902 (reference evaluator) says they apply and they stay outside "
                "publicKey/service. Oracle: refCompose left fold, compared on canonical JSON after normalising absent/null/empty lists; "
                "unique ids in => unique ids out. Non-trivial: remove-then-re-add of an id, replace-then-add, partial id overlap, "
                "also-known-as duplicate, or an ietf operation after a copy/move; distinct by (document, patches). Second test: applicable "
                "operations followed by one that the reference evaluator rejects must fail as a whole (non-trivial: at least one applicable operation before it).",
        "technique": "property-based testing (rapid): model-based comparison with a reference composer and an RFC 6902 reference evaluator",
        "level_text": "Randomised exploration of patch histories against an executable reference model of the documented per-action semantics.",
        "level_note": "Trusts the harness reference composer (about 150 lines, plain maps/slices) and its RFC 6902 evaluator.",
        "assumptions": ["an ietf operation that the RFC 6902 reference evaluator rejects (missing target, failed test, location that is not an index of the array it addresses) must make ApplyPatches fail (TestC10_Inapplicable); the open finding F20 ('replace' of a missing object member is applied as add) is recognised by its signature, counted under 'excluded' and reported as KNOWN-FINDING",
                        "operations reading an emptied also-known-as list are excluded (null vs [] is not specified); copy into the source's own subtree is excluded"],
    },
})

PROPS.update({
    "C11": {
        "tests": "^TestC11_",
        "quick": {"scale": 1.0, "timeout": 900},
        "thorough": {"scale": 80.0, "shards": 16, "timeout": 3000, "fuzz": [("FuzzC11", 90)]},
        "rule": "rapid: document with keys, services and other members; ietf-json-patch of 1-4 operations over all six kinds whose "
                "path and from are drawn (1/3) from a list of protected / look-alike pointers (/publicKey, /service, elements, "
                "sub-members, '-', leading-zero indices, prefix siblings, case variants, escaped tokens, root, alsoKnownAs) and (2/3) "
                "from pointers into the current document (existing, fresh, junk); values may themselves contain publicKey/service "
                "members. Oracle: Validate(p)==nil and ApplyPatches succeeds => canonical JSON of publicKey and service unchanged. "
                "Non-trivial: validated patch that mentions a protected name (or the root) in some field, or that applied and changed "
                "the document; distinct by (document, operations).",
        "technique": "property-based testing (rapid): invariant over validator verdict and composer result; native coverage-guided fuzzing of the operation-list text with the same invariant in thorough",
        "level_text": "Randomised exploration of RFC 6902 lists aimed at the protected members; the invariant is checked on every validated, applicable list.",
        "level_note": "Trusts the harness comparison of the publicKey/service members (canonical JSON after a JSON round trip).",
        "assumptions": ["absent, null and empty publicKey/service lists are the same state"],
    },
})

PROPS.update({
    "C13": {
        "tests": "^TestC13_",
        "quick": {"scale": 1.0, "timeout": 900},
        "thorough": {"scale": 50.0, "shards": 16, "timeout": 1800},
        "rule": "rapid: a valid patch of each of the seven dedicated actions (boundary-valid ids of 1/50 characters, service types "
                "of 1/30) must validate; then exactly one labelled violation is applied (id empty/51/bad character/missing/duplicate; "
                "key type missing/unknown; both/no key material; JWK missing or empty kty/crv/x; incomplete RSA; JsonWebKey2020 with "
                "base58; unknown key member; purposes empty/unknown/six/not permitted for the type; service type missing/empty/31; "
                "endpoint missing/null/invalid URI/invalid URI at position k of a list; empty or invalid id list; empty, unparsable or "
                "duplicate also-known-as URIs; extra member in a replace document; empty key/service list) and must be refused. "
                "TestC13_Matrix enumerates all 168 cells of key type x (purpose|general) x material x {add-public-keys, replace} "
                "against the documented table; TestC13_OriginalDocuments checks id / @context (list and string form) refusal. "
                "Non-trivial: every violated case and every matrix cell; distinct by (action, label, patch).",
        "technique": "property-based testing (rapid) with by-construction verdicts (valid + exactly one labelled violation) and exhaustive enumeration of the key-type x purpose table",
        "level_text": "Randomised exploration with a complete label catalogue and an exhaustive finite table; verdicts are known by construction.",
        "level_note": "Trusts the harness' transcription of the documented constraints (ids, lengths, key type x purpose table).",
        "assumptions": ["wrong JSON types inside lists (number as id/purpose/URI) are skipped by the validators by design and belong to C19", "a context is a non-empty @context member (string or list)"],
    },
    "C14": {
        "tests": "^TestC14_",
        "quick": {"scale": 1.0, "timeout": 900},
        "thorough": {"scale": 30.0, "shards": 16, "timeout": 1800},
        "rule": "rapid: documents without id (non-empty key/service/also-known-as lists plus 0-4 further members named "
                "[A-Za-z0-9_@-]+ with arbitrary JSON values) in plain or varied spelling -> PatchesFromDocument -> ApplyPatches({}) must "
                "reproduce the document (also after each patch went through Bytes/FromBytes); every patch from the eight constructors "
                "on valid input must validate, survive Bytes/FromBytes unchanged and expose action and value under the configured "
                "key; a document with id and bytes with missing/unsupported/non-string action, missing value member or the value "
                "under another key must be refused. Non-trivial document: all three dedicated members and >= 2 other members, one nested; "
                "every constructor case is non-trivial; distinct by content.",
        "technique": "property-based testing (rapid): round-trip oracles and by-construction refusals",
        "level_text": "Randomised exploration of round trips.",
        "level_note": "Trusts the harness document normalisation (absent / null / empty list are equal).",
        "assumptions": ["member names contain no JSON-pointer or quoting metacharacters and are not prefixed by publicKey/service (stated in the property's domain)"],
    },
    "C12": {
        "tests": "^TestC12_",
        "quick": {"scale": 1.0, "timeout": 900},
        "thorough": {"scale": 30.0, "shards": 16, "timeout": 1800},
        "rule": "rapid histories: (a) 1-4 chained ApplyPatches calls, each with 1-5 validated patches and, in 1/3 of the calls, an "
                "ietf-json-patch that validates but does not apply at a drawn position k; (b) operation histories of the C01 state "
                "machine (valid, degraded and refused operations of every failure class). Before every call the inputs (document / "
                "previous resolution model incl. nested document, every patch value, the anchored operation) are snapshotted by an "
                "independent reflective deep copy and as JSON; after the call and again at the end of the history all snapshots, "
                "including every earlier result, must be unchanged; error => nil result, and a list the reference says must fail may "
                "not succeed. Non-trivial: non-empty nested document and (failure at k >= 2 or an existing id replaced / a refused "
                "or degraded operation after an accepted one); distinct by history.",
        "technique": "property-based testing (rapid, stateful histories) with a deep-snapshot invariant",
        "level_text": "Randomised exploration of call histories with snapshots of all inputs and all earlier results.",
        "level_note": "Trusts reflect.DeepEqual and encoding/json as comparison devices; the harness never writes into values it handed to or got from the library.",
        "assumptions": ["aliasing between a result and the inputs it was built from is not itself a violation; only an observable change of an input or of an earlier result is"],
    },
})

PROPS.update({
    "C01": {
        "tests": "^TestC01_",
        "quick": {"scale": 5.0, "timeout": 900},
        "thorough": {"scale": 120.0, "shards": 16, "timeout": 1800},
        "rule": "rapid stateful histories of 1-12 anchored operations (ending at the first accepted deactivate) under a drawn protocol "
                "(multihash list [18],[19],[18,19],[19,18]; time delta 0/1/2/5/600; delta limit 1200/3000/20000; nonce size 8/16/32): "
                "each step draws type, anchoring metadata (small and huge times/numbers, canonical and equivalent references, anchor "
                "origin string/object/list/absent), signing key of any of the five types with optional nonce, anchoring window around the "
                "anchoring time, and a class: valid, signed by an uncommitted key, inapplicable patches, 7 delta problems, or one of ~25 "
                "labelled refusals (not JSON, missing members, reveal/alg/header/signature/nonce/key/JWS problems, malformed commitments, "
                "next recovery = current key, suffix mismatch, create typed as other). Requests are assembled by the harness from first "
                "principles. Oracle: refApply (Sidetree state machine) after every step, all 15 ResolutionModel fields compared, refused "
                "=> (nil, error) and the previous state stays in force. Non-trivial: >= 3 recorded steps with at least one accepted, one "
                "degraded and one refused operation, or an accepted recover/deactivate after a degraded step; distinct by (step list, multihash list).",
        "technique": "model-based stateful property testing (rapid) against an executable Sidetree state machine",
        "level_text": "Randomised exploration of operation histories against a reference state machine; every failure class of the catalogue can occur at every position.",
        "level_note": "Trusts the harness reference state machine (refApply, about 120 lines) and reference composer; requests are built without the library's builders.",
        "assumptions": ["matching reveal values to stored commitments is the operation processor's job (stated in the property): the applier accepts an operation signed by any key whose reveal value it carries",
                        "'empty state' means no document: after a degraded create the document is present but empty, so a second create is refused",
                        "anchoring times and window bounds are below 2^50 (JSON numbers stay exact)"],
    },
})

PROPS.update({
    "C02": {
        "tests": "^TestC02_",
        "quick": {"scale": 2.0, "timeout": 900},
        "thorough": {"scale": 60.0, "shards": 16, "timeout": 1800},
        "rule": "rapid: a created state, a valid update/recover/deactivate signed by any of the five key types (nonce optional, both hash "
                "algorithms), then one of 28 tamperings: each signed-payload field re-encoded without re-signing, key substituted with and "
                "without re-signing (reveal value kept), reveal value substituted or malformed, delta substituted under the unchanged signed "
                "hash, protected header extra/missing/empty/disallowed alg (re-signed), alg swapped or kid added without re-signing, "
                "signature bit flipped / truncated / padded / empty / taken from another request of the same key, 2 or 4 segments, padded or "
                "invalid base64, payload not JSON, signed suffix mismatch, missing members. Oracle: Apply refuses (nil state and error), "
                "except recover with only the delta replaced => exactly the reference's degraded state; no attacker-marked content in any "
                "returned state; parse-time rules also refused by the non-batch parser. TestC02_SignatureBitScan flips every signature bit "
                "(every third bit of >64-byte signatures in quick) for each operation type x key type. Non-trivial: tampered request is "
                "still JSON of the right shape (reaches the checks); every scanned bit; distinct by (type, tamper, request).",
        "technique": "property-based testing (rapid) with a labelled tamper catalogue and an invariant on the applier result; exhaustive signature bit scan",
        "level_text": "Randomised exploration of tamperings of valid signed operations plus an exhaustive single-bit scan of signatures.",
        "level_note": "Trusts the harness request builder and deterministic signer; the untampered operation is first confirmed to be applied as the reference says.",
        "assumptions": ["a consistent attacker triple (own key, own reveal value, own signature) is accepted by the applier by design: matching reveal values to commitments is the processor's job", "no alg <-> key-type binding is asserted (the property states none); ECDSA (r, n-s) malleability is not a single-bit change"],
    },
    "C03": {
        "tests": "^TestC03_",
        "quick": {"scale": 2.0, "timeout": 900},
        "thorough": {"scale": 60.0, "shards": 16, "timeout": 1800},
        "rule": "rapid: create requests assembled by hand (1-3 validated patches of all kinds incl. RFC-valid ietf-json-patch, optional "
                "anchor origin string/object with large and fractional numbers and non-BMP names/list/arbitrary tree, optional type, keys "
                "of all types with optional nonce) under multihash lists [18],[19],[18,19],[19,18] and three namespaces. Oracle: "
                "UniqueSuffix == refHash(suffix data, first algorithm), ID == namespace:suffix; two varied re-serializations give the same "
                "DID; one of ten single-field modifications (recovery commitment, delta hash, anchor origin leaf, type, update commitment, "
                "patch leaf, patch added/removed, other-algorithm commitment, URI respelled inside a patch) must be rejected or give "
                "another DID, and any delta change must be rejected outside batch mode. Every case is non-trivial (accepted request + "
                "modification that still parses); distinct by (request, modification).",
        "technique": "property-based testing (rapid): independent hash reference plus metamorphic relations (re-serialization invariance, modification sensitivity)",
        "level_text": "Randomised exploration with an independent reference for the suffix and metamorphic relations for modifications.",
        "level_note": "Trusts refHash/refJCS (checked by C05/C06) and the harness request builder.",
        "assumptions": ["adding unknown members to suffix data or delta is not a modification: the request schema drops them by design"],
    },
    "C09": {
        "tests": "^TestC09_",
        "quick": {"scale": 2.0, "timeout": 900},
        "thorough": {"scale": 40.0, "shards": 16, "timeout": 1800},
        "rule": "rapid: (from, until, t) from the grid 0..6 x 0..6 x 0..9 (3/4) or around a large base with offsets -2..2 and +-delta (1/4); "
                "maxOperationTimeDelta in {0,1,2,5,600,7200}; every other numeric protocol limit drawn independently and different from it; "
                "update / recover / deactivate signed by any key type on a freshly created state. Oracle: effective <=> no bounds or "
                "from <= t <= (until or from+delta); applier result compared with refApply (update/recover: commitments advance, document "
                "changes iff effective, recover's document empty otherwise; deactivate refused iff not effective); a second configuration "
                "with the same delta and other limits must give the same result; the non-batch parser must hand exactly "
                "(from, until or from+delta or 0) to a recording TimeValidator and obey its refusal. Non-trivial: t within 1 of a bound, "
                "or a defaulted expiry; distinct by (type, from, until, t, delta).",
        "technique": "property-based testing (rapid): window rule written out as oracle, model comparison, metamorphic check over unrelated limits, recording validator",
        "level_text": "Randomised exploration over a small grid that contains all orderings and equalities, plus large values.",
        "level_note": "Trusts windowEffective (5 lines) and refApply.",
        "assumptions": ["times and bounds below 2^50"],
    },
})

PROPS.update({
    "C07": {
        "tests": "^TestC07_",
        "quick": {"scale": 2.0, "timeout": 900},
        "thorough": {"scale": 60.0, "shards": 16, "timeout": 1800},
        "rule": "rapid: a valid create/update/recover/deactivate (hand-assembled; all key types, nonce sizes 1/8/16/32, both hash "
                "algorithms, 1-3 validated patches, optional window/anchor origin/type; plain or varied JSON spelling) and a protocol in "
                "which every limit is exactly tight for it (max operation size = input length, max delta size = canonical delta length, "
                "max hash length = hash length, algorithm/curve/patch lists containing what is used plus random others in random order). "
                "It must be accepted and reported with type, unique suffix (refHash under the first algorithm for create), namespaced id, "
                "the original bytes and the request's anchor origin. Then exactly one labelled violation: 8 configuration-side (size-1, "
                "delta size-1, hash length-1, algorithm not listed, used action disabled, signature algorithm / key curve not allowed, "
                "nonce size +-1) or ~20 request-side (type unknown/missing, each hash field recomputed with an unlisted algorithm or "
                "lengthened, delta missing/empty/invalid patch at any position/one byte over, alg missing/empty, extra header, JWK member "
                "missing, nonce undecodable, reveal of another key, missing suffix/signed data/suffix data, update = recovery commitment, "
                "next commitment = current key, signed suffix mismatch) => must be refused. Non-trivial: every violated case; cells "
                "(type x label) reported; distinct by (type, label, request, limits).",
        "technique": "property-based testing (rapid) with by-construction verdicts: valid under exactly-tight limits, then one labelled rule violation",
        "level_text": "Randomised exploration with a complete catalogue of single-rule violations and off-by-one limits.",
        "level_note": "Trusts the harness request builder and its own size/hash computations (refJCS, refHash).",
        "assumptions": ["only rules with an explicit check in the parser are in the catalogue; 'recover's update commitment must differ from the current key' is not asserted (ambiguous, absent from code and spec text)"],
    },
})

PROPS.update({
    "C04": {
        "tests": "^TestC04_",
        "quick": {"scale": 2.0, "timeout": 900},
        "thorough": {"scale": 100.0, "shards": 16, "timeout": 3000},
        "rule": "rapid: (a) keys of all five types from the pool or from drawn scalars/seeds, with or without a nonce of 1/8/16/32 "
                "bytes, both hash algorithms: reveal value, commitment and commitment-from-reveal-value compared with refHash / "
                "hash-of-hash over the harness' own JWK encoding; a second JWK differing in exactly one member (nonce, nonce presence, x, "
                "y, crv, kty) must have another commitment and reveal value. (b) well-formed chains create -> (update|recover)* -> "
                "deactivate of 2-10 hand-assembled operations under multihash lists [18,19],[19,18],[18],[19], each operation free to use "
                "any configured algorithm for its own hashes while its reveal value answers the predecessor's commitment: "
                "GetCommitmentFromRevealValue(parser.GetRevealValue(op)) must equal the commitment the parser reported for the predecessor "
                "on the same chain (parsed create model, GetCommitment of update/recover, recover's delta commitment for recover->update); "
                "GetCommitment(deactivate) empty; create has neither. Non-trivial: key with nonce or empty y; chain with >= 1 update->update "
                "and >= 1 recover link; distinct by content.",
        "technique": "property-based testing (rapid): independent hash reference for the algebra, invariant over generated operation chains for the linkage",
        "level_text": "Randomised exploration against an independent reference and over generated well-formed chains.",
        "level_note": "Trusts refHash/refJCS and the harness request builder.",
        "assumptions": ["the canonical JWK is the library's signed-data key model: crv, kty, x, y always present (y empty for OKP), nonce when set"],
    },
    "C08": {
        "tests": "^TestC08_",
        "quick": {"scale": 1.0, "timeout": 900},
        "thorough": {"scale": 20.0, "shards": 16, "timeout": 1800},
        "rule": "rapid lifecycles create -> update* -> recover -> update* -> deactivate built (a) with client.New*Request from patch "
                "constructors or an opaque document and (b) through sidetree.Client (request bytes captured by the request function); keys of "
                "all five types (nonces in (a)), library signers with/without kid, both hash algorithms, optional anchor origin and anchoring "
                "window, document keys of four types with 1-5 purposes as JWK or base58, services with string / list / extra members, "
                "also-known-as; updates with remove/add overlaps on the same ids. Oracle: every request parses non-batch under the matching "
                "protocol; the anchored form is refJCS of the request with the same suffix/type/anchor origin and applies to the same state; "
                "the fold yields refCompose's document, refHash commitments of the next keys and the deactivated flag; builders refuse equal "
                "commitments, commitments of another or an unsupported algorithm and re-use of the signing key. Non-trivial: lifecycle with "
                "an update removing and adding the same id and a recover that changes key type; distinct by (create request, lifecycle).",
        "technique": "property-based testing (rapid): generated client lifecycles checked against parser, applier and the reference composer; by-construction refusals",
        "level_text": "Randomised exploration of client-built lifecycles.",
        "level_note": "Trusts refCompose/refHash and did-go / kms-go data types used to feed the client.",
        "assumptions": ["client keys always carry >= 1 purpose (the client's key model always emits a purposes member)", "'builders refuse' is asserted for: equal commitments, commitment of another/unsupported algorithm (create), next commitment = signing key (update, recover)"],
    },
})

PROPS.update({
    "C17": {
        "tests": "^TestC17_",
        "quick": {"scale": 1.0, "timeout": 1200},
        "thorough": {"scale": 0.6, "shards": 16, "timeout": 2400, "fuzz": [("FuzzC17", 90)]},
        "rule": "rapid: DID documents the VDR accepts (0-4 verification methods: Ed25519 2018 as bytes or JWK, Ed25519 2020, "
                "JsonWebKey2020 over P-256/P-384/secp256k1/Ed25519, EcdsaSecp256k1 2019; each in a non-empty subset of the relationships "
                "its type permits; 0-2 services; absolute also-known-as URIs), fixed update/recovery keys of any type, methods ion / ionx / "
                "io / orb / a1. Oracles: DID = ns:refHash(suffix data):unpadded base64url of the canonical request; Create three times => "
                "same DID; ResolveDocument == refTransform of the supplied document (keys/relationships as sets, @base ids, commitments = "
                "refHash of the supplied keys, equivalentId = short form); VDR.Read, Create's document and ProcessOperation agree. Rejected: "
                "120 sampled (every position in thorough) single-character substitutions over [A-Za-z0-9-_:], every character of the type "
                "value and other operation types, nine re-encodings of the initial state (whitespace, member order, padding, standard "
                "alphabet, trailing bits, extra member, empty), short form, foreign suffix, and resolution by handlers / VDRs of seven "
                "other namespaces related by prefix (which must still resolve their own DID with the same suffix and state). Non-trivial: "
                "document with >= 2 keys, or a tamper that still decodes to JSON; distinct by DID.",
        "technique": "property-based testing (rapid): reference transform + hash reference, metamorphic determinism check, by-construction rejection of tampered / foreign DIDs; native fuzzing of ResolveDocument in thorough",
        "level_text": "Randomised exploration over documents and a dense sample (thorough: all positions) of single-character tamperings.",
        "level_note": "Trusts refTransform/refHash and did-go / kms-go types used to describe the input document.",
        "assumptions": ["creates refused for size (1700-byte delta / 2500-byte request limit of the built-in protocol) are outside the domain and counted", "order of verification methods and of key contexts is not part of 'equivalent to the document supplied'"],
    },
    "C18": {
        "tests": "^TestC18_",
        "quick": {"scale": 2.0, "timeout": 900},
        "thorough": {"scale": 60.0, "shards": 16, "timeout": 1800},
        "rule": "rapid: internal documents of 0-5 validated keys (six types, purpose subsets, JWK or base58 material consistent with the type), "
                "0-3 services with extra members, also-known-as; options base / method contexts / custom key-context map (incl. two types "
                "sharing one context) / include published / unpublished; transformation info published true/false, canonical and equivalent "
                "ids; 0-6 published and unpublished anchored operations with (time, number) from a 5x5 grid or huge times, all pairs "
                "distinct, shuffled, with repeated canonical references. Oracle: refTransform builds the complete expected result "
                "(verification methods 1:1 in order, id rule with/without @base, controller, base58/multibase conversion for Ed25519 "
                "2018/2020, relationships = purposes, services with qualified ids and all members, contexts, metadata, operations sorted by "
                "(time, number) and de-duplicated by canonical reference) and the JSON is compared; the generic transformer is compared too. "
                "Non-trivial: two keys of one type with different purpose sets, or an included operation list where time order and number "
                "order disagree; distinct by expected result.",
        "technique": "property-based testing (rapid) against a declarative reference construction of the resolution result",
        "level_text": "Randomised exploration against an executable specification of the result.",
        "level_note": "Trusts refTransform (about 120 lines) and btcutil/base58 for the conversions.",
        "assumptions": ["key material is consistent with the key type (an Ed25519 type with a non-Ed25519 JWK passes patch validation but cannot be converted; outside the domain)", "operations sharing a canonical reference are identical copies (which one represents the group is then irrelevant)"],
    },
})

PROPS.update({
    "C19": {
        "tests": "^TestC19_",
        "quick": {"scale": 3.0, "timeout": 1500},
        "thorough": {"scale": 30.0, "shards": 16, "timeout": 4800,
                     "fuzz": [("FuzzC19_ParseRequest", 90), ("FuzzC19_Bytes", 90), ("FuzzC19_Patch", 90), ("FuzzC19_ResolveDID", 60), ("FuzzC19_JWS", 60)]},
        "rule": "rapid structure-aware corruption: take a valid create/update/recover/deactivate (all key types), patch of any action, "
                "long-form DID, JWS/JWK or JSON text and apply 1-3 corruptions (any node replaced by one of 22 hostile values of another "
                "JSON type incl. huge strings, deep nesting, numeric extremes; member dropped / renamed in another case / added; byte-level "
                "edits for text). Operations are corrupted in the outer request, or in the delta / signed payload / protected header "
                "*before* hashing and signing so that the outer checks pass; ietf-json-patch lists are built from hostile pointers "
                "(negative, out-of-range, overflowing, leading-zero indices, '-', empty tokens, pointers into their own source, null / "
                "number for op/path/from) and also wrapped in a valid signed update; valid operations are handed to entry points "
                "expecting another type. Entry points: Parser.Parse/ParseOperation(batch and not)/GetRevealValue/GetCommitment/ParseDID, "
                "GetAnchoredOperation, Applier.Apply (existing and empty state, every anchored type), ProcessOperation, ResolveDocument, "
                "VDR.Read, ParseJWS/VerifyJWS/VerifySignature/JWK decoding/GetED25519PublicKey, MarshalCanonical, hashing and commitment "
                "functions, patch.FromBytes/PatchesFromDocument/all constructors, Validate, ApplyPatches, both transformers on the "
                "composed documents, both document validators. Oracle: recover() around each call (panic = violation); process death "
                "= violation via the in-flight journal; time-out = inconclusive. Plus deep nesting (10k/30k levels; 100k in thorough) "
                "and the committed regression inputs. Non-trivial: the corrupted input is still well-formed enough to get past the "
                "first decoding step (JSON-valid / three-part DID); distinct by description of the corruption.",
        "technique": "structure-aware corruption with rapid + native coverage-guided fuzzing (thorough) over a registry of entry points, panic/process-death oracle",
        "level_text": "Randomised structure-aware corruption and coverage-guided fuzzing; absence of panics is only explored, never proved.",
        "level_note": "Trusts recover() and the driver's detection of child-process death; non-termination can only be observed as a time-out (reported as inconclusive).",
        "assumptions": ["nil Go arguments (nil document map, nil JWK pointer) are programmer errors, not untrusted input",
                        "inputs <= 64 KiB for fuzzing, <= 1 MiB overall; the canonicalizer is quadratic in nesting depth (100k levels = 16 s): it terminates, so this is reported as an observation, not a violation"],
    },
})

PROPS.update({
    "C20": {
        "tests": "^TestC20_",
        "race": True,
        "quick": {"scale": 1.0, "timeout": 1500},
        "thorough": {"scale": 6.0, "shards": 8, "timeout": 2400},
        "rule": "binary built with -race. (a) rapid workloads of 50-200 pre-generated calls on distinct inputs (parse valid / invalidated "
                "operations, apply create / update on privately owned states, compose, transform, ResolveDocument, ProcessOperation, "
                "VDR.Create with fixed keys, VDR.Read, canonicalize+hash; strings with control characters, astral characters and boundary "
                "numbers in anchor origins and service types) against one shared parser, applier, composer, transformer, handler and VDR: "
                "all calls first run sequentially, then twice concurrently (each call exactly once per round) on 2/4/8/16 goroutines with "
                "GOMAXPROCS 1/2/4/16; every result must equal the sequential one and the race detector must stay silent. (b) 2-16 "
                "goroutines issue drawn Register/CreateClientVersion or Add/ForNamespace sequences over 1-3 keys on a fresh registry; the "
                "call/return history (logical clock) is checked for linearizability against a map model with porcupine (Register: exactly "
                "one winner per version, later ones panic). Non-trivial: a workload in which >= 2 goroutines were inside the same "
                "component at once (atomic in-flight counter), a registry history with >= 2 writes; distinct by workload.",
        "technique": "stress under the Go race detector with generated workloads, differential concurrent-vs-sequential results, porcupine linearizability check of registry histories",
        "level_text": "Sampled schedules only: stress plus race detector plus linearizability checking of observed histories; a race needs both accesses to execute.",
        "level_note": "Trusts the Go race detector and porcupine; the Go scheduler is not controlled.",
        "assumptions": ["inputs that share mutable substructure (two states sharing one operations slice or document map) are not 'distinct inputs' and are not generated",
                        "failures are schedule dependent: rapid may report them as flaky; the workload and history are printed and the replay re-runs the failed test with the same seed"],
    },
})
NOT_APPLICABLE = {}
NOT_APPLICABLE_OLD = {}
HOOK_COMMITS = []
