# Per-property configuration of the checks (tests to run, budgets, evidence rule text).
# quick: one process; thorough: shards x larger scale (+ native fuzz targets where listed).

PROPS = {
    "C05": {
        "tests": "^TestC05_",
        "quick": {"scale": 1.0, "timeout": 600},
        "thorough": {"scale": 12.0, "shards": 16, "timeout": 1500, "fuzz": [("FuzzC05", 120)]},
        "rule": "rapid-generated I-JSON trees (strings over all Unicode scalar values with boosted control/surrogate-adjacent/"
                "astral classes, numbers from raw IEEE-754 bits and boundary families, depth<=5/9) serialized in 3 surface "
                "spellings each plus the Go-value path, and batches of doubles as [x]; oracle = independent RFC 8785 serializer "
                "(refJCS/refES6) + fixed point + encoding/json round trip. Non-trivial tree: member names whose UTF-16 order "
                "differs from code-point order, control/astral/BMP>=U+E000 characters, boundary/threshold/big-integer numbers, or a "
                "multi-member object whose input spelling differs from the canonical form; non-trivial number: magnitude in a "
                "notation-threshold decade or an integer >= 1e11. Distinct = distinct canonical output.",
        "technique": "property-based testing (rapid) against an independent RFC 8785 / ECMAScript number reference; native coverage-guided fuzzing in thorough",
        "level_text": "Randomised exploration: every generated I-JSON value, in several surface spellings, must canonicalize to the byte string an independent RFC 8785 serializer produces; hundreds of thousands of doubles per quick run. Sampling, not proof: the float/Unicode spaces are not enumerable.",
        "level_note": "Trusts the harness reference serializer (strconv shortest digits + ES6 notation rules, UTF-16 key order) and encoding/json as the I-JSON reader.",
        "assumptions": ["input is I-JSON (no duplicate names, no lone surrogates, finite numbers); other input only has to be "
                        "answered without a panic (C19)", "inputs <= 64 KiB"],
    },
}

NOT_APPLICABLE = {p: "check not built yet (work in progress; this entry is temporary)" for p in
                  ["C%02d" % i for i in range(1, 21)]}
HOOK_COMMITS = []
